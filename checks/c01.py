"""
C01 - Interest and Data packets survive an encode/decode round trip.

E-input: complete products of code-derived menus (name shapes x representations, every
InterestParam / MetaInfo field combination, payload-length windows around every length
boundary - every length 0..70000 in the thorough tier -, all shipped signers and a synthetic
signer with every shrink amount), each case run through the real make_* / parse_* and checked
by the independent strict TLV reader (mc/ref/tlv_strict.py, mc/ref/ndn_strict.py).
"""
from __future__ import annotations

import hashlib
import itertools

import ndn.encoding as enc
from ndn.encoding import Signer
from ndn.security import DigestSha256Signer, HmacSha256Signer, Sha256WithRsaSigner, Sha256WithEcdsaSigner, \
    Ed25519Signer, NullSigner

from mc.core import Acc
from mc.seams import owned_random, key_der
from mc.ref import tlv_strict as ts
from mc.ref import ndn_strict as ns
from mc.ndnenv import owned_env, FixedClock

PROPERTY = 'C01'

# -- component menu ---------------------------------------------------------------------------------
COMP = {
    'a': (8, b'a'), 'E': (8, b''), 'K': (0x20, b'k'), 'T': (65535, b'x'), 'L': (8, b'l' * 253),
    'I': (1, b'\x00' * 32), 'P': (2, b'\xee' * 32),
    'U': (8, 'B\u00f6lter-\u03a3\u03c0\u03c5'.encode('utf-8')),       # text outside ASCII, given raw in the text forms
}
URI = {'a': 'a', 'E': '', 'K': '32=k', 'T': '65535=x', 'L': 'l' * 253,
       'I': 'sha256digest=' + '00' * 32, 'P': 'params-sha256=' + 'ee' * 32, 'U': 'B\u00f6lter-\u03a3\u03c0\u03c5'}


def comp_wire(tok):
    if isinstance(tok, str) and tok.startswith('G'):     # 'G<n>': generic component with an n-byte value
        return ts.tlv(8, b'g' * int(tok[1:]))
    if isinstance(tok, str) and tok.startswith('X'):     # 'X<n>': n-byte value whose URI text is three times as long ('%F1' each)
        return ts.tlv(8, b'\xf1' * int(tok[1:]))
    if isinstance(tok, str) and tok.startswith('Y'):     # 'Y<n>': n plain bytes followed by one escaped byte
        return ts.tlv(8, b'y' * int(tok[1:]) + b'\x00')
    if isinstance(tok, str) and tok.startswith('Q'):     # 'Q<n>': a component of the parameters-digest type with an n-byte value
        return ts.tlv(2, b'\xee' * int(tok[1:]))
    t, v = COMP[tok]
    return ts.tlv(t, v)


def uri_of(tok):
    if tok.startswith('G'):
        return 'g' * int(tok[1:])
    if tok.startswith('X'):
        return '%F1' * int(tok[1:])
    if tok.startswith('Y'):
        return 'y' * int(tok[1:]) + '%00'
    if tok.startswith('Q'):
        return '2=' + '%EE' * int(tok[1:])
    return URI[tok]


def name_repr(tokens, rep):
    comps = [comp_wire(t) for t in tokens]
    if rep == 'list':
        return [bytes(c) for c in comps]
    if rep == 'bytes':
        return ts.tlv(7, b''.join(comps))
    if rep == 'uri':
        s = '/' + '/'.join(uri_of(t) for t in tokens)
        if tokens and tokens[-1] == 'E':
            s += '/'
        return s
    if rep == 'mixed':
        return [uri_of(t) if i % 2 == 0 else bytearray(comps[i]) for i, t in enumerate(tokens)]
    if rep == 'mview':
        return memoryview(ts.tlv(7, b''.join(comps)))
    if rep == 'gen':
        # a one-shot iterator of components (e.g. itertools.chain(prefix, [segment])) is a documented form of a name
        return (uri_of(t) if i % 2 == 1 else bytes(comps[i]) for i, t in enumerate(list(tokens)))
    if rep == 'tuple':
        return tuple(bytes(c) for c in comps)
    raise ValueError(rep)


def all_names(menu, max_len):
    for n in range(max_len + 1):
        for tup in itertools.product(menu, repeat=n):
            yield tup


# -- signers ----------------------------------------------------------------------------------------
class SynSigner(Signer):
    """reserves r bytes, writes a (public abstract Signer API)"""

    def __init__(self, r, a):
        self.r, self.a = r, a

    def write_signature_info(self, signature_info):
        signature_info.signature_type = 250
        signature_info.key_locator = None

    def get_signature_value_size(self):
        return self.r

    def write_signature_value(self, wire, contents):
        wire[:self.a] = b'\xab' * self.a
        return self.a


def hmac_key(n):
    return bytes((7 * i + 1) & 0xFF for i in range(n))


def make_signer(spec, for_interest):
    if spec == 'none':
        return None
    if spec == 'digest':
        return DigestSha256Signer(for_interest=for_interest)
    if spec == 'hmac':
        return HmacSha256Signer('/k/hmac', b'secret-key')
    if isinstance(spec, str) and spec.startswith('hmac:'):
        return HmacSha256Signer('/k/hmac', hmac_key(int(spec[5:])))
    if spec == 'rsa':
        return Sha256WithRsaSigner('/k/rsa/KEY/1', key_der('rsa2048_0'))
    if isinstance(spec, str) and spec.startswith('rsa:'):
        # moduli whose bit length is not a multiple of eight (legal; a signature has ceil(bits / 8) octets)
        return Sha256WithRsaSigner('/k/rsa/KEY/1', key_der(f'rsa{spec[4:]}_0'))
    if spec == 'ecdsa':
        return Sha256WithEcdsaSigner('/k/ec/KEY/1', key_der('ec256_0'))
    if isinstance(spec, str) and spec.startswith('ecdsa:'):
        return Sha256WithEcdsaSigner('/k/ec/KEY/1', key_der({'224': 'ec224_0', '384': 'ec384_0', '521': 'ec521_0'}[spec[6:]]))
    if spec == 'ed':
        return Ed25519Signer('/k/ed/KEY/1', key_der('ed25519_0'))
    if spec == 'null':
        return NullSigner()
    if isinstance(spec, (list, tuple)) and spec[0] == 'syn':
        return SynSigner(spec[1], spec[2])
    raise ValueError(spec)


SIG_TYPE = {'digest': 0, 'hmac': 4, 'hmac:1': 4, 'hmac:63': 4, 'hmac:64': 4, 'hmac:65': 4, 'hmac:200': 4, 'rsa': 1, 'rsa:1023': 1, 'rsa:1030': 1, 'ecdsa': 3, 'ecdsa:224': 3, 'ecdsa:384': 3, 'ecdsa:521': 3, 'ed': 5, 'null': 200}
SIG_KEYNAME = {'hmac': '/k/hmac', 'hmac:1': '/k/hmac', 'hmac:63': '/k/hmac', 'hmac:64': '/k/hmac', 'hmac:65': '/k/hmac', 'hmac:200': '/k/hmac', 'rsa': '/k/rsa/KEY/1', 'rsa:1023': '/k/rsa/KEY/1', 'rsa:1030': '/k/rsa/KEY/1', 'ecdsa': '/k/ec/KEY/1', 'ecdsa:224': '/k/ec/KEY/1', 'ecdsa:384': '/k/ec/KEY/1',
               'ecdsa:521': '/k/ec/KEY/1', 'ed': '/k/ed/KEY/1'}

# -- parameter menus --------------------------------------------------------------------------------
FH_MENU = [[], [['h']], [['h'], ['g', 'h2']], [['h'], ['g', 'h2'], ['h'], ['h']]]       # (the last one lists a delegation three times)
IPARAMS = [dict(can_be_prefix=c, must_be_fresh=m, nonce=n, lifetime=lt, hop_limit=h, fh=f)
           for c in (False, True) for m in (False, True) for n in (None, 0, 2 ** 32 - 1)
           for lt in (None, 0, 255, 256, 65536, 2 ** 32, 2 ** 63, 2 ** 64 - 1) for h in (None, 0, 255) for f in range(3)]
IPARAMS += [dict(can_be_prefix=False, must_be_fresh=False, nonce=7, lifetime=4000, hop_limit=None, fh=3),
            dict(can_be_prefix=True, must_be_fresh=True, nonce=None, lifetime=None, hop_limit=0, fh=3)]
DEFAULT_IP = dict(can_be_prefix=False, must_be_fresh=False, nonce=None, lifetime=4000, hop_limit=None, fh=0)
METAS = [dict(content_type=c, freshness_period=fp, final=fb)
         for c in (None, 0, 2, 255, 256, 2 ** 63) for fp in (None, 0, 1000, 2 ** 32, 2 ** 63 - 1, 2 ** 64 - 1) for fb in (None, 'empty', 'seg')] + [None]
DEFAULT_META = dict(content_type=0, freshness_period=None, final=None)


def windows(tier):
    if tier == 'quick':
        return list(range(0, 301)) + list(range(65200, 65601)) + [70000]
    return list(range(0, 301)) + list(range(65200, 65601)) + [70000]


SYN = [(r, a) for r in (0, 1, 2, 32, 72) for a in range(r + 1)] + [(252, a) for a in (0, 1, 126, 251, 252)] + \
      [(253, 253), (253, 252), (300, 300), (300, 0)]


# -- sub-spaces (each a deterministic generator of JSON-able cases) ------------------------------------
def space_names(tier):
    menu_i = ['a', 'E', 'K', 'T', 'L', 'I', 'P']
    for kind in ('I', 'D'):
        for toks in all_names(menu_i, 3):
            reps = ['list', 'uri', 'bytes', 'mixed', 'gen'] if len(toks) <= 2 else [['list', 'uri', 'bytes', 'mixed', 'mview', 'gen', 'tuple'][hash_small(toks) % 7]]
            for rep in reps:
                for plen in (None, 0, 1):
                    for signer in ('none', 'digest'):
                        yield {'k': kind, 'name': list(toks), 'rep': rep, 'p': 'default', 'plen': plen, 'signer': signer}


def hash_small(toks):
    return sum((i + 1) * ord(t) for i, t in enumerate(toks))


def space_params(tier):
    for toks in (['a'], ['a', 'K', 'P'], []):
        for i in range(len(IPARAMS)):
            for plen in (None, 5):
                for signer in ('none', 'digest', 'hmac'):
                    yield {'k': 'I', 'name': toks, 'rep': 'list', 'p': i, 'plen': plen, 'signer': signer}
    for toks in (['a'], ['a', 'T', 'I'], []):
        for i in range(len(METAS)):
            for plen in (None, 0, 5):
                for signer in ('none', 'digest', 'hmac', 'null'):
                    yield {'k': 'D', 'name': toks, 'rep': 'list', 'p': i, 'plen': plen, 'signer': signer}
    # names with raw non-ASCII text in every text form; forwarding hints that list one delegation twice
    for kind in ('I', 'D'):
        for toks in (['U'], ['a', 'U'], ['U', 'a', 'U']):
            for rep in ('uri', 'mixed', 'gen', 'list'):
                yield {'k': kind, 'name': toks, 'rep': rep, 'p': 'default', 'plen': 3, 'signer': 'digest'}
    # the same parameter objects built through their alternative constructor (a dictionary of keyword values, every key present)
    for i in range(len(IPARAMS)):
        yield {'k': 'I', 'name': ['a'], 'rep': 'list', 'p': i, 'plen': 5, 'signer': 'digest', 'via': 'dict'}
    for i in range(len(METAS)):
        if METAS[i] is not None:
            yield {'k': 'D', 'name': ['a'], 'rep': 'list', 'p': i, 'plen': 5, 'signer': 'digest', 'via': 'dict'}


def space_lengths(tier):
    for kind in ('I', 'D'):
        for toks in (['a'], ['L', 'a'], []):
            for signer in ('none', 'digest', 'hmac', 'null', 'ed'):
                if signer == 'ed' and toks != ['a']:
                    continue
                for plen in windows(tier):
                    yield {'k': kind, 'name': toks, 'rep': 'list', 'p': 'default', 'plen': plen, 'signer': signer}


def space_name_lengths(tier):
    """the Name's own length field crossing 253 and 65536, with and without the appended digest component"""
    lens = list(range(170, 262)) + list(range(65440, 65540))
    for kind in ('I', 'D'):
        for n in lens:
            for toks in ([f'G{n}'], ['a', f'G{n}'], [f'G{n}', 'K', 'a']):
                for rep in (('list', 'uri') if n < 1000 else ('list', 'bytes')):
                    for plen, signer in ((None, 'none'), (1, 'none'), (None, 'digest'), (2, 'hmac')):
                        yield {'k': kind, 'name': toks, 'rep': rep, 'p': 'default', 'plen': plen, 'signer': signer}
        # a component of the parameters-digest type that does not have the size of a digest: an ordinary component in a Data name,
        # and nothing the Interest encoder can use as the place of the digest (it refuses, it must not emit a damaged packet)
        for toks in (['a', 'Q31', 'K'], ['Q33'], ['a', 'Q3'], ['Q40', 'a'], ['a', 'Q0']):
            for plen, signer in ((None, 'none'), (100, 'none'), (100, 'digest'), (2, 'hmac')):
                yield {'k': kind, 'name': toks, 'rep': 'list', 'p': 'default', 'plen': plen, 'signer': signer}
        # components given as text whose escaped form is longer than the value: text length and value length on different
        # sides of 253
        for tok in [f'X{n}' for n in list(range(82, 88)) + list(range(250, 256))] + [f'Y{n}' for n in range(247, 256)]:
            for toks in ([tok], ['a', tok], [tok, 'a']):
                for rep in ('uri', 'mixed', 'list'):
                    for plen, signer in ((None, 'none'), (None, 'digest')):
                        yield {'k': kind, 'name': toks, 'rep': rep, 'p': 'default', 'plen': plen, 'signer': signer}


def space_full_sweep(tier):
    """every payload length 0..70000 for six (kind, name, signer) combinations (thorough only)"""
    combos = [('I', ['a'], 'digest'), ('D', ['a'], 'digest'), ('I', ['a'], ['syn', 72, 70]), ('D', ['a'], ['syn', 72, 71]),
              ('D', ['L'], 'none'), ('I', [], 'hmac')]
    for kind, toks, signer in combos:
        for plen in range(0, 70001):
            yield {'k': kind, 'name': toks, 'rep': 'list', 'p': 'default', 'plen': plen, 'signer': signer}


def space_shrink(tier):
    lens = [0] + list(range(150, 261)) + list(range(65380, 65541))
    for kind in ('I', 'D'):
        for (r, a) in SYN:
            some = lens if r in (72, 2, 252) or tier == 'thorough' else [0, 200, 252, 253, 65535, 65536] + list(range(180, 230, 7))
            for plen in some:
                yield {'k': kind, 'name': ['a'], 'rep': 'list', 'p': 'default', 'plen': plen, 'signer': ['syn', r, a]}


def space_asym(tier):
    n_iter = 3 if tier == 'quick' else 12
    for kind in ('I', 'D'):
        for plen in [0] + list(range(150, 200)) + list(range(65400, 65440)) + [70000]:
            for it in range(n_iter):
                yield {'k': kind, 'name': ['a', 'K'], 'rep': 'list', 'p': 'default', 'plen': plen, 'signer': 'ecdsa', 'it': it}
        for plen in (0, 1, 100, 65536):
            yield {'k': kind, 'name': ['a'], 'rep': 'uri', 'p': 'default', 'plen': plen, 'signer': 'rsa'}
        for plen in (0, 100, 121, 122, 123, 124, 125, 126):       # (around the payload length that moves the packet across 253 octets)
            for bits in ('1023', '1030'):
                yield {'k': kind, 'name': ['a'], 'rep': 'uri', 'p': 'default', 'plen': plen, 'signer': 'rsa:' + bits}
        # the other curves the signer accepts: the reserved signature size depends on the curve (P-521 is not a multiple of 8 bits)
        for curve in ('224', '384', '521'):
            for plen in (0, 90, 100, 110, 120, 252):
                for it in range(8 if tier == 'quick' else 24):
                    yield {'k': kind, 'name': ['a', 'K'], 'rep': 'list', 'p': 'default', 'plen': plen, 'signer': 'ecdsa:' + curve, 'it': it}
        for p in range(0, len(IPARAMS if kind == 'I' else METAS), 7):
            yield {'k': kind, 'name': ['a', 'P'] if kind == 'I' else ['a'], 'rep': 'list', 'p': p, 'plen': 3, 'signer': 'ecdsa', 'it': p}


# -- histories: one parameter object kept by the application and adjusted between packets; names parsed and edited in between ----------
R_METAS = [(None, None, None), (0, None, None), (2, 1000, None), (0, None, 'seg'), (256, 2 ** 32, 'empty'), (0, 0, 'seg')]
R_IPS = [dict(can_be_prefix=False, must_be_fresh=False, lifetime=4000, hop_limit=None, fh=0),
         dict(can_be_prefix=True, must_be_fresh=True, lifetime=None, hop_limit=5, fh=0),
         dict(can_be_prefix=False, must_be_fresh=True, lifetime=2 ** 32, hop_limit=None, fh=1),
         dict(can_be_prefix=True, must_be_fresh=False, lifetime=255, hop_limit=255, fh=2),
         dict(can_be_prefix=False, must_be_fresh=False, lifetime=0, hop_limit=0, fh=0)]


def space_reuse(tier):
    for kind, menu in (('D', R_METAS), ('I', R_IPS)):
        for n in (2, 3):
            for seq in itertools.product(range(len(menu)), repeat=n):
                for rep in ('uri', 'list'):
                    for plen in ((None, 3) if n == 2 or tier == 'thorough' else (3,)):
                        yield {'k': kind, 'hist': list(seq), 'rep': rep, 'plen': plen, 'name': ['a', 'K'], 'signer': 'none', 'p': 'default'}


def run_reuse(case):
    """The application keeps one MetaInfo / InterestParam object and one name, assigns the fields it wants before each packet, and in
    between parses the name text itself and appends to the list it got.  Every packet must be the packet a fresh object with the
    same values gives, and must read back (strict reader) as those values under that name."""
    kind, toks, plen = case['k'], case['name'], case['plen']
    viol = []
    payload = None if plen is None else b'p' * plen
    exp_comps = [comp_wire(t) for t in toks]
    uri = name_repr(toks, 'uri')

    def bad(clause, what):
        viol.append((f'C01|{kind}|reuse|{clause}', what))

    def fbv(tok):
        return {None: None, 'empty': b'', 'seg': bytes(enc.Component.from_segment(7))}[tok]
    shared = enc.MetaInfo() if kind == 'D' else enc.InterestParam()
    kept_name = name_repr(toks, case['rep'])
    outs = []
    with owned_random(('c01r', tuple(case['hist']))):
        for step, idx in enumerate(case['hist']):
            try:
                if kind == 'D':
                    ct, fp, fb = R_METAS[idx]
                    shared.content_type, shared.freshness_period, shared.final_block_id = ct, fp, fbv(fb)
                    wire = bytes(enc.make_data(kept_name, shared, payload))
                    fresh = bytes(enc.make_data(name_repr(toks, 'list'), enc.MetaInfo(content_type=ct, freshness_period=fp, final_block_id=fbv(fb)), payload))
                    ref = ns.read_data(wire, minimal=True)
                    got = ref['meta'] or {'content_type': None, 'freshness': None, 'final_block_id': None}
                    want = {'content_type': ct, 'freshness': fp, 'final_block_id': fbv(fb)}
                    if got != want or ref['content'] != payload:
                        bad('fields', f'history {case["hist"]} step {step + 1}: MetaInfo on the wire {got!r}, assigned {want!r} (content length '
                                      f'{None if ref["content"] is None else len(ref["content"])})')
                else:
                    p = R_IPS[idx]
                    shared.can_be_prefix, shared.must_be_fresh, shared.lifetime, shared.hop_limit = p['can_be_prefix'], p['must_be_fresh'], p['lifetime'], p['hop_limit']
                    shared.nonce = 77
                    shared.forwarding_hint = [list(x) for x in FH_MENU[p['fh']]]
                    wire = bytes(enc.make_interest(kept_name, shared, payload))
                    fresh = bytes(enc.make_interest(name_repr(toks, 'list'), enc.InterestParam(
                        can_be_prefix=p['can_be_prefix'], must_be_fresh=p['must_be_fresh'], lifetime=p['lifetime'], hop_limit=p['hop_limit'], nonce=77,
                        forwarding_hint=[list(x) for x in FH_MENU[p['fh']]]), payload))
                    ref = ns.read_interest(wire, minimal=True)
                    got = (ref['cbp'], ref['mbf'], ref['nonce'], ref['lifetime'], ref['hop_limit'], ref['fh'])
                    want = (p['can_be_prefix'], p['must_be_fresh'], 77, p['lifetime'], p['hop_limit'], [[ts.tlv(8, c.encode()) for c in nm] for nm in FH_MENU[p['fh']]])
                    if got != want:
                        bad('fields', f'history {case["hist"]} step {step + 1}: parameters on the wire {got!r}, assigned {want!r}')
                name_on_wire = ref['name'][:len(exp_comps)]
                if name_on_wire != exp_comps or len(ref['name']) > len(exp_comps) + (1 if kind == 'I' and payload is not None else 0):
                    bad('name', f'history {case["hist"]} step {step + 1}: name on the wire {hexl(ref["name"])}, given {hexl(exp_comps)}')
                if wire != fresh:
                    bad('differs-from-fresh-object', f'history {case["hist"]} step {step + 1}: the packet made with the kept object differs from the packet a fresh '
                                                     f'object with the same values gives ({len(wire)} / {len(fresh)} octets)')
                outs.append(hashlib.sha256(wire).hexdigest()[:12])
            except ts.Malformed as e:
                bad(f'malformed:{e.clause}', f'history {case["hist"]} step {step + 1}: emitted wire is not well-formed: {e}')
                outs.append('malformed')
            except Exception as e:  # noqa
                bad(f'raises:{type(e).__name__}', f'history {case["hist"]} step {step + 1}: {type(e).__name__}: {e}')
                outs.append('raises')
            # between two packets: the application parses the name text and builds a longer name from the list it got
            mine = enc.Name.from_str(uri)
            mine.append(bytes(enc.Component.from_segment(step)))
            mine2 = enc.Name.normalize(uri)
            mine2 += [b'\x08\x01z']
    return f'{kind}|reuse|n={len(case["hist"])}', viol, len(set(case['hist'])) > 1, {'wires': outs}


SPACES = {'reuse': space_reuse, 'namelen': space_name_lengths, 'names': space_names, 'params': space_params, 'lengths': space_lengths, 'shrink': space_shrink,
          'asym': space_asym, 'sweep': space_full_sweep}
CHUNK = 1500


# -- oracle -----------------------------------------------------------------------------------------
CONTAINERS = {5, 6, 7, 0x1e, 0x2c, 0x16, 0x1c, 0x14}


def walk_strict(el: ts.El):
    """every nested container must be a well-formed sequence of shortest-form TLVs"""
    if el.typ in CONTAINERS:
        for c in el.children(minimal=True):
            walk_strict(c)


def run_case(case):
    """returns (outcome_key, violations[(sig, what)], nontrivial: bool, info)"""
    kind = case['k']
    toks = case['name']
    viol = []
    plen = case['plen']
    payload = None if plen is None else bytes((i * 7 + 1) & 0xFF for i in range(min(plen, 64))) + b'\x5a' * max(0, plen - 64)
    signer_spec = case['signer']
    signer = make_signer(signer_spec, kind == 'I')
    name_in = name_repr(toks, case['rep'])
    name_before = [bytes(c) if not isinstance(c, str) else c for c in name_in] if isinstance(name_in, list) else None
    exp_comps = [comp_wire(t) for t in toks]
    tag = f"{kind}|{sigtag(signer_spec)}"

    def bad(clause, what):
        viol.append((f'C01|{kind}|{clause}|signer={sigtag(signer_spec)}', what))

    with owned_random(('c01', case.get('it', 0), plen)):
        try:
            if kind == 'I':
                p = DEFAULT_IP if case['p'] == 'default' else IPARAMS[case['p']]
                kw = dict(can_be_prefix=p['can_be_prefix'], must_be_fresh=p['must_be_fresh'], nonce=p['nonce'],
                          lifetime=p['lifetime'], hop_limit=p['hop_limit'], forwarding_hint=[list(x) for x in FH_MENU[p['fh']]])
                ip = enc.InterestParam.from_dict(dict(kw, unrelated_key=1)) if case.get('via') == 'dict' else enc.InterestParam(**kw)
                wire, final_name = enc.make_interest(name_in, ip, payload, signer, need_final_name=True)
            else:
                m = DEFAULT_META if case['p'] == 'default' else METAS[case['p']]
                if m is None:
                    mi = None
                else:
                    fb = {None: None, 'empty': b'', 'seg': bytes(enc.Component.from_segment(7))}[m['final']]
                    kw = dict(content_type=m['content_type'], freshness_period=m['freshness_period'], final_block_id=fb)
                    mi = enc.MetaInfo.from_dict(dict(kw, unrelated_key=1)) if case.get('via') == 'dict' else enc.MetaInfo(**kw)
                wire = enc.make_data(name_in, mi, payload, signer)
                final_name = None
        except Exception as e:  # noqa
            # documented refusals
            need_digest = kind == 'I' and (payload is not None or signer is not None)
            npd = toks.count('P')
            if kind == 'I' and isinstance(e, ValueError) and (npd > 1 or (npd == 1 and not need_digest)):
                return 'refused:params-digest', viol, False, None
            if kind == 'I' and isinstance(e, ValueError) and any(isinstance(t, str) and t.startswith('Q') for t in toks):
                return 'refused:params-digest-size', viol, True, None
            if isinstance(signer_spec, (list, tuple)) and signer_spec[1] >= 253 and signer_spec[2] != signer_spec[1] \
                    and isinstance(e, ValueError):
                return 'refused:long-flexible-signature', viol, True, None
            bad(f'encode-raises:{type(e).__name__}', f'make raised {type(e).__name__}: {e}')
            return 'encode-raises', viol, True, None
    wire = bytes(wire)
    # (0) the caller's objects are inputs: a name list used for this packet is used for the next one as it was
    if isinstance(name_in, list) and [bytes(c) if not isinstance(c, str) else c for c in name_in] != name_before:
        bad('caller-name-modified', f'the name list handed to the encoder was changed in place: now {len(name_in)} elements, {len(name_before)} before')
    # (1) exactly one well-formed element, every declared length exact, shortest-form numbers, recursively
    try:
        top = ts.read_single(wire, minimal=True)
        walk_strict(top)
        ref = ns.read_interest(wire, minimal=True) if kind == 'I' else ns.read_data(wire, minimal=True)
    except ts.Malformed as e:
        bad(f'malformed:{e.clause}', f'emitted wire is not one well-formed TLV element: {e}')
        return 'malformed', viol, True, None
    shrink = 0
    if signer is not None:
        shrink = signer.get_signature_value_size() - len(ref['sig_value'] or b'')
    nontrivial = len(wire) > 252 or shrink > 0 or (plen or 0) > 252
    # (2) reference extraction equals the inputs
    if kind == 'I':
        need_digest = payload is not None or signer is not None
        exp_name = list(exp_comps)
        if need_digest:
            dg = hashlib.sha256(ref['digest_cover'] or b'').digest()
            if 'P' in toks:
                exp_name[toks.index('P')] = ts.tlv(2, dg)
            else:
                exp_name.append(ts.tlv(2, dg))
            if ref['digest_cover'] is None:
                bad('no-app-params', 'digest required but ApplicationParameters missing on the wire')
        if ref['name'] != exp_name:
            bad('name', f'name on the wire {hexl(ref["name"])} != expected {hexl(exp_name)}')
        exp_app = payload if payload is not None else (b'' if signer is not None else None)
        if ref['app'] != exp_app:
            bad('payload', f'ApplicationParameters length {None if ref["app"] is None else len(ref["app"])} != expected')
        exp_fh = [[ts.tlv(8, c.encode()) for c in nm] for nm in FH_MENU[p['fh']]]
        got = (ref['cbp'], ref['mbf'], ref['nonce'], ref['lifetime'], ref['hop_limit'], ref['fh'])
        want = (p['can_be_prefix'], p['must_be_fresh'], p['nonce'], p['lifetime'], p['hop_limit'], exp_fh)
        if got != want:
            bad('params', f'parameters on the wire {got!r} != given {want!r}')
        if final_name is not None and [bytes(c) for c in final_name] != ref['name']:
            bad('final-name', 'final name returned by make_interest differs from the name on the wire')
    else:
        if ref['name'] != exp_comps:
            bad('name', f'name on the wire {hexl(ref["name"])} != expected {hexl(exp_comps)}')
        if ref['content'] != payload:
            bad('payload', f'Content length {None if ref["content"] is None else len(ref["content"])} != expected {plen}')
        if m is None:
            if ref['meta'] is not None:
                bad('meta', 'MetaInfo emitted although none was given')
        else:
            fb = {None: None, 'empty': b'', 'seg': bytes(enc.Component.from_segment(7))}[m['final']]
            want = {'content_type': m['content_type'], 'freshness': m['freshness_period'], 'final_block_id': fb}
            got = ref['meta'] or {'content_type': None, 'freshness': None, 'final_block_id': None}
            if got != want:
                bad('meta', f'MetaInfo on the wire {got!r} != given {want!r}')
    # signature fields
    if signer is None:
        if ref['sig_info'] is not None or ref['sig_value'] is not None:
            bad('sig-present', 'signature fields emitted without a signer')
    else:
        if ref['sig_info'] is None or ref['sig_value'] is None:
            bad('sig-missing', 'signer given but SignatureInfo/SignatureValue missing')
        else:
            st = signer_spec if isinstance(signer_spec, str) else 'syn'
            exp_type = SIG_TYPE.get(st, 250)
            if ref['sig_info']['type'] != exp_type:
                bad('sig-type', f"SignatureType {ref['sig_info']['type']} != {exp_type}")
            if st in SIG_KEYNAME:
                kn = [ts.tlv(8, c.encode()) for c in SIG_KEYNAME[st].strip('/').split('/')]
                if ref['sig_info']['key_name'] != kn:
                    bad('key-locator', 'KeyLocator name differs from the signer\'s')
            if isinstance(signer_spec, (list, tuple)) and ref['sig_value'] != b'\xab' * signer_spec[2]:
                bad('sig-value', f'signature value bytes differ from what the signer wrote (len {len(ref["sig_value"])})')
    # (3) the library's own parse returns the same
    try:
        if kind == 'I':
            n2, ip2, app2, sig2 = enc.parse_interest(wire)
            if [bytes(c) for c in n2] != ref['name']:
                bad('parse-name', 'parse_interest name differs from the wire')
            if (None if app2 is None else bytes(app2)) != ref['app']:
                bad('parse-payload', 'parse_interest ApplicationParameters differ')
            got = (ip2.can_be_prefix, ip2.must_be_fresh, ip2.nonce, ip2.lifetime, ip2.hop_limit,
                   [[bytes(c) for c in nm] for nm in ip2.forwarding_hint])
            if got != want:
                bad('parse-params', f'parse_interest parameters {got!r} != given {want!r}')
            sv = sig2.signature_value_buf
        else:
            n2, mi2, c2, sig2 = enc.parse_data(wire)
            if [bytes(c) for c in n2] != ref['name']:
                bad('parse-name', 'parse_data name differs from the wire')
            if (None if c2 is None else bytes(c2)) != ref['content']:
                bad('parse-payload', 'parse_data Content differs')
            if m is None:
                want_m = (0, None, None)
            else:
                want_m = (m['content_type'], m['freshness_period'], fb)
            got_m = (mi2.content_type, mi2.freshness_period, None if mi2.final_block_id is None else bytes(mi2.final_block_id))
            if got_m != want_m:
                bad('parse-meta', f'parse_data MetaInfo {got_m!r} != given {want_m!r}')
            else:
                # what a parse returns is the caller's: changing it (before publishing the content again, say) does not show in the next parse
                mi2.content_type, mi2.freshness_period, mi2.final_block_id = 7, 98765, b'\x08\x01z'
                n2.append(b'\x08\x01z')
                n3, mi3, _, _ = enc.parse_data(wire)
                got3 = (mi3.content_type, mi3.freshness_period, None if mi3.final_block_id is None else bytes(mi3.final_block_id))
                if got3 != want_m or [bytes(c) for c in n3] != ref['name']:
                    bad('parse-again', f'after the caller changed the result of one parse, parsing the same packet again gives MetaInfo {got3!r} / '
                                       f'{len(n3)} name components')
            sv = sig2.signature_value_buf
        if (None if sv is None else bytes(sv)) != ref['sig_value']:
            bad('parse-sigvalue', 'parsed signature value differs from the wire')
    except Exception as e:  # noqa
        bad(f'parse-raises:{type(e).__name__}', f'parsing the emitted wire raised {type(e).__name__}: {e}')
    outer_form = {1: 'L1', 3: 'L3', 5: 'L5'}[top.vstart - 1]
    return f'{tag}|outer={outer_form}|shrink={min(shrink, 3)}', viol, nontrivial, {'len': len(wire), 'shrink': shrink}


def sigtag(spec):
    return spec if isinstance(spec, str) else f'syn{spec[1]}'


def hexl(lst):
    return [c.hex()[:20] for c in lst]


# -- plan / unit / replay ----------------------------------------------------------------------------
def plan(tier, seed):
    units = []
    sizes = {}
    names = ['names', 'namelen', 'params', 'lengths', 'shrink', 'asym', 'reuse'] + (['sweep'] if tier == 'thorough' else [])
    for sp in names:
        n = sum(1 for _ in SPACES[sp](tier))
        sizes[sp] = n
        ch = CHUNK if sp != 'asym' else 400
        for lo in range(0, n, ch):
            units.append({'space': sp, 'lo': lo, 'hi': min(n, lo + ch), 'tier': tier})
    return {
        'units': units,
        'rule': 'cases = complete products of menus per sub-space (names x representations; all 648 InterestParam / 61 '
                'MetaInfo combinations; payload-length windows 0..300, 65200..65600, 70000 (thorough: every length '
                '0..70000 for six combinations); synthetic signer with every shrink amount; ECDSA/RSA/Ed25519). '
                'Distinct by construction. Non-trivial = wire longer than 252 bytes, payload longer than 252 bytes, or '
                'signature shorter than reserved.',
        'bounds': {'sub_space_sizes': sizes, 'names': '0..3 components over 7 kinds', 'max_payload': 70000},
        'assumptions': ['reference reader mc/ref/ndn_strict.py implements NDN packet format 0.3 as understood from the spec',
                        'signed Interest without ApplicationParameters: an empty ApplicationParameters element is the documented result'],
    }


def unit(arg):
    acc = Acc()
    acc.state_hashes = None
    gen = itertools.islice(SPACES[arg['space']](arg['tier']), arg['lo'], arg['hi'])
    env = owned_env(clock=FixedClock(), seed=1)
    env.__enter__()
    try:
        for case in gen:
            key, viol, nontrivial, info = run_reuse(case) if 'hist' in case else run_case(case)
            acc.evaluations += 1
            acc.transitions += 2
            acc.state_count += 1
            acc.outcome(key)
            acc.notes['space:' + arg['space']] += 1
            if info and isinstance(case['signer'], str) and case['signer'].startswith('ecdsa'):
                acc.notes[f"{case['signer']}-der-shrink={info['shrink']}"] += 1
            if nontrivial:
                acc.nontrivial += 1
            acc.observe([case, key, [v[0] for v in viol]])
            for sig, what in viol:
                acc.violation(sig, what, case)
            if acc.evaluations % 1500 == 1:
                acc.sample({'case': case, 'outcome': key, 'info': info})
    finally:
        env.__exit__(None, None, None)
    return acc


def replay(case):
    with owned_env(clock=FixedClock(), seed=1):
        key, viol, _, _ = run_reuse(case) if 'hist' in case else run_case(case)
    return [{'sig': s, 'what': w} for s, w in viol]
