"""
C02 - signatures and parameter digests cover the specified bytes; tampering detected.

For every base packet of a C01 sub-space (all shipped signers x Interest/Data x name shapes incl. a digest placeholder in
the middle x parameter / payload sizes x several ECDSA nonces so that every DER length occurs):
  cover  : a recording signer keeps the bytes handed to write_signature_value; they must equal the NDN-specified signed
           portion located by the reference reader on the final wire, and equal what parsing reports
           (signature_covered_part, digest_covered_part); the matching verifier accepts.
  tamper : every single-byte substitution (3 bit patterns quick / all 255 values thorough for digest and HMAC, 3 patterns
           for public-key signatures), every truncation (with and without re-fixing the outer length) and TLV-level edits
           of the wire.  If the reference reader parses the mutant and its signed portion or signature value differs from
           the original, the verifier must reject it (or parsing must fail).  The parameters-digest check must accept a
           parsed mutant iff its digest component equals SHA-256 of the reference-located range.
"""
from __future__ import annotations

import hashlib
import itertools

import ndn.encoding as enc
from ndn.encoding import Signer
from ndn.security import sha256_digest_checker, params_sha256_checker
from ndn.security.validator.known_key_validator import HmacChecker, RsaChecker, EccChecker, Ed25519Checker

from mc.core import Acc
from mc.seams import owned_random, pub_der
from mc.ref import tlv_strict as ts
from mc.ref import ndn_strict as ns
from mc.ndnenv import Counter32
from checks import c01, c06
from mc.ndnenv import owned_env, FixedClock

PROPERTY = 'C02'


class Recorder(Signer):
    def __init__(self, inner):
        self.inner = inner
        self.covered = None

    def write_signature_info(self, signature_info):
        return self.inner.write_signature_info(signature_info)

    def get_signature_value_size(self):
        return self.inner.get_signature_value_size()

    def write_signature_value(self, wire, contents):
        self.covered = b''.join(bytes(c) for c in contents)
        return self.inner.write_signature_value(wire, contents)


def run_coro(coro):
    try:
        coro.send(None)
    except StopIteration as e:
        return e.value
    raise RuntimeError('verifier suspended')


def verifier_for(spec):
    if spec == 'digest':
        return sha256_digest_checker
    if spec == 'hmac':
        return HmacChecker.from_key('/k/hmac', b'secret-key')
    if spec.startswith('hmac:'):
        return HmacChecker.from_key('/k/hmac', c01.hmac_key(int(spec[5:])))
    if spec == 'rsa':
        return RsaChecker.from_key('/k/rsa/KEY/1', pub_der('rsa2048_0'))
    if spec == 'ecdsa':
        return EccChecker.from_key('/k/ec/KEY/1', pub_der('ec256_0'))
    if spec.startswith('ecdsa:'):
        return EccChecker.from_key('/k/ec/KEY/1', pub_der({'224': 'ec224_0', '384': 'ec384_0', '521': 'ec521_0'}[spec[6:]]))
    if spec == 'ed':
        return Ed25519Checker.from_key('/k/ed/KEY/1', pub_der('ed25519_0'))
    raise ValueError(spec)


_CERT_VER = {}


def verifier_from_cert(spec):
    """the verifier of the same key built from its certificate - issued by another key, as certificates usually are - and one
    built from a certificate of a different key under the same name (must reject)"""
    if spec not in _CERT_VER:
        import datetime
        from ndn.app_support import security_v2 as sv2
        cls, key_name, pub = {'rsa': (RsaChecker, '/k/rsa/KEY/1', 'rsa2048_0'), 'ecdsa': (EccChecker, '/k/ec/KEY/1', 'ec256_0'),
                              'ed': (Ed25519Checker, '/k/ed/KEY/1', 'ed25519_0')}[spec]
        other = {'rsa': 'rsa2048_1', 'ecdsa': 'ec256_1', 'ed': 'ed25519_1'}[spec]
        with owned_random(('c02-from-cert', spec)):
            issuer = c01.make_signer('ecdsa:384', False)
            issuer.key_locator_name = '/issuer/of/certificates/KEY/9'
            _, cert = sv2.derive_cert(key_name, 'iss', pub_der(pub), issuer, datetime.datetime(2024, 2, 29, 12, 0, 0), 3600)
            _, wrong = sv2.derive_cert(key_name, 'iss', pub_der(other), issuer, datetime.datetime(2024, 2, 29, 12, 0, 0), 3600)
        _CERT_VER[spec] = (cls.from_cert(bytes(cert)), cls.from_cert(bytes(wrong)))
    return _CERT_VER[spec]


def base_cases(tier):
    """JSON-able base packet descriptions"""
    for kind in ('I', 'D'):
        names = [['a'], ['a', 'P', 'K'], [], ['a', 'I', 'K']] if kind == 'I' else [['a'], ['a', 'K', 'T'], [], ['I', 'a']]
        for toks in names:
            for plen in (None, 0, 5, 300):
                for signer in ('digest', 'hmac', 'ed', 'rsa', 'ecdsa'):
                    if signer == 'rsa' and (plen not in (None, 5) or toks == []):
                        continue
                    its = range(6 if tier == 'quick' else 16) if signer == 'ecdsa' else (0,)
                    for it in its:
                        if signer == 'ecdsa' and it > 0 and plen != 5:
                            continue
                        yield {'k': kind, 'name': toks, 'plen': plen, 'signer': signer, 'it': it}
    # HMAC keys around the 64-byte block size of SHA-256 (empty keys are refused by pycryptodome)
    for kind in ('I', 'D'):
        for klen in (1, 63, 64, 65, 200):
            yield {'k': kind, 'name': ['a'], 'plen': 5, 'signer': f'hmac:{klen}', 'it': 0}
    # optional fields around the signed portion: HopLimit / ForwardingHint / flags are outside it, MetaInfo inside it
    for kind in ('I', 'D'):
        for pv in (1, 2, 3):
            for signer in ('digest', 'hmac', 'ecdsa', 'ed'):
                for toks in (['a'], ['a', 'P', 'K']) if kind == 'I' else (['a'],):
                    yield {'k': kind, 'name': toks, 'plen': 5, 'signer': signer, 'it': 0, 'pv': pv}
    # the signer object was used for another packet before (an application keeps its signer; the keychain hands out cached ones)
    for kind in ('I', 'D'):
        for signer in ('digest', 'hmac', 'ed', 'rsa', 'ecdsa'):
            yield {'k': kind, 'name': ['a'], 'plen': 5, 'signer': signer, 'it': 0, 'reuse': True}
    # a name long enough for a three-octet Name length
    for signer in ('digest', 'hmac', 'ecdsa'):
        yield {'k': 'I', 'name': ['L', 'K'], 'plen': 5, 'signer': signer, 'it': 0}
        yield {'k': 'D', 'name': ['L', 'K'], 'plen': 5, 'signer': signer, 'it': 0}
    # the other curves of the ECDSA signer
    for kind in ('I', 'D'):
        for curve in ('224', '384', '521'):
            for it in range(2 if tier == 'quick' else 8):
                yield {'k': kind, 'name': ['a'], 'plen': 5, 'signer': 'ecdsa:' + curve, 'it': it}
    # unsigned Interests with parameters: digest only
    for toks in (['a'], ['a', 'P', 'K']):
        for plen in (0, 5, 300):
            yield {'k': 'I', 'name': toks, 'plen': plen, 'signer': 'none', 'it': 0}


def cert_cases(tier):
    """certificates are Data packets produced by their own encoder path (security_v2.new_cert): a padded name moves the
    packet across the 253-byte boundary while the ECDSA signature shrinks by 0..3 bytes"""
    for iss in ('ecdsa', 'ecdsa:384', 'rsa', 'ed'):
        for pad in (range(0, 130) if iss.startswith('ecdsa') else range(0, 130, 9)):
            for it in range((3 if tier == 'quick' else 10) if iss.startswith('ecdsa') else 1):
                yield {'k': 'C', 'name': ['pad'], 'plen': pad, 'signer': iss, 'it': it}


def build_cert(case):
    import datetime
    from ndn.app_support import security_v2 as sv2
    inner = c01.make_signer(case['signer'], False)
    rec = Recorder(inner)
    with owned_random(('c02cert', case['it'], case['plen'], case['signer'])):
        key_name = [ts.tlv(8, b'p' * case['plen']), ts.tlv(8, b'KEY'), ts.tlv(8, b'\x01')]
        _, wire = sv2.derive_cert(key_name, 'iss', pub_der('ed25519_1'), rec, datetime.datetime(2024, 2, 29, 12, 0, 0), 3600)
    return bytes(wire), rec


def build(case):
    if case['k'] == 'C':
        return build_cert(case)
    kind, toks, plen = case['k'], case['name'], case['plen']
    payload = None if plen is None else bytes((i * 5 + 3) & 0xFF for i in range(plen))
    inner = c01.make_signer(case['signer'], kind == 'I') if case['signer'] != 'none' else None
    rec = Recorder(inner) if inner is not None else None
    with owned_random(('c02', case['it'], plen, kind)):
        if case.get('reuse') and inner is not None:
            enc.make_data('/earlier/packet', enc.MetaInfo(), b'signed before with the same signer object', inner)
            if kind == 'I':
                enc.make_interest('/earlier/interest', enc.InterestParam(nonce=1), b'x', inner)
        name_in = c01.name_repr(toks, 'list')
        pv = case.get('pv', 0)
        if kind == 'I':
            ip = [enc.InterestParam(nonce=0x01020304, lifetime=4000, can_be_prefix=True),
                  enc.InterestParam(nonce=0x01020304, lifetime=4000, can_be_prefix=True, hop_limit=7),
                  enc.InterestParam(nonce=0xfffffffe, lifetime=1, must_be_fresh=True, hop_limit=0, forwarding_hint=[['h'], ['g', 'h2']]),
                  enc.InterestParam(nonce=None, lifetime=None, hop_limit=255)][pv]
            wire = enc.make_interest(name_in, ip, payload, rec)
        else:
            mi = [enc.MetaInfo(freshness_period=1000),
                  enc.MetaInfo(content_type=2, freshness_period=0, final_block_id=enc.Component.from_segment(3)),
                  enc.MetaInfo(), None][pv]
            wire = enc.make_data(name_in, mi, payload, rec)
    return bytes(wire), rec


def lib_parse(kind, wire):
    if kind == 'I':
        n, p, app, sig = enc.parse_interest(wire)
    else:
        n, m, c, sig = enc.parse_data(wire)
    return n, sig


def ref_parse(kind, wire):
    return ns.read_interest(wire) if kind == 'I' else ns.read_data(wire)


def check_cover(case):
    viol = []
    kind, spec = case['k'], case['signer']

    def bad(clause, what):
        viol.append((f'C02|cover|{kind}|{spec}|{clause}', f'{what}; case {case}'))
    try:
        wire, rec = build(case)
    except Exception as e:  # noqa
        bad(f'encode-raises:{type(e).__name__}', repr(e))
        return viol, None
    try:
        ref = ref_parse(kind, wire)
    except ts.Malformed as e:
        bad('malformed', str(e))
        return viol, None
    if rec is not None:
        if ref['signed'] is None:
            bad('no-signature-on-wire', 'signer given but nothing signed')
            return viol, None
        if rec.covered != ref['signed']:
            bad('signer-input', f'bytes handed to the signer ({len(rec.covered)} B) differ from the specified signed portion '
                                f'({len(ref["signed"])} B): first difference at {first_diff(rec.covered, ref["signed"])}')
    try:
        name, sig = lib_parse(kind, wire)
    except Exception as e:  # noqa
        bad(f'parse-raises:{type(e).__name__}', repr(e))
        return viol, None
    if rec is not None:
        reported = b''.join(bytes(x) for x in sig.signature_covered_part)
        if reported != ref['signed']:
            bad('reported-cover', f'signature_covered_part after parsing ({len(reported)} B) differs from the specified signed portion '
                                  f'({len(ref["signed"])} B): first difference at {first_diff(reported, ref["signed"])}')
        if bytes(sig.signature_value_buf) != ref['sig_value']:
            bad('reported-sigvalue', 'signature_value_buf differs from the SignatureValue on the wire')
        ok = run_coro(verifier_for(spec)(name, sig))
        if not ok:
            bad('genuine-rejected', 'the matching verifier rejects the genuine packet')
        if spec in ('rsa', 'ecdsa', 'ed'):
            good, wrong = verifier_from_cert(spec)
            try:
                if not run_coro(good(name, sig)):
                    bad('genuine-rejected|verifier-from-certificate', 'the verifier built from the certificate of the signing key (issued by another key) '
                                                                      'rejects the genuine packet')
                if run_coro(wrong(name, sig)):
                    bad('accepted-under-other-key|verifier-from-certificate', 'a verifier built from a certificate of a different key accepts the packet')
            except Exception as e:  # noqa
                bad(f'verifier-raises:{type(e).__name__}|verifier-from-certificate', repr(e))
    if kind == 'I' and ref['digest_cover'] is not None:
        rep = b''.join(bytes(x) for x in sig.digest_covered_part)
        if rep != ref['digest_cover']:
            bad('reported-digest-cover', f'digest_covered_part ({len(rep)} B) differs from ApplicationParameters..end ({len(ref["digest_cover"])} B)')
        if ref['digest_value'] != hashlib.sha256(ref['digest_cover']).digest():
            bad('digest-value', 'the ParametersSha256Digest component is not SHA-256 of ApplicationParameters..end')
        if not run_coro(params_sha256_checker(name, sig)):
            bad('genuine-digest-rejected', 'params_sha256_checker rejects the genuine packet')
    return viol, (wire, ref)


def first_diff(a, b):
    for i, (x, y) in enumerate(zip(a, b)):
        if x != y:
            return i
    return min(len(a), len(b))


def mutants(wire, spec, tier):
    n = len(wire)
    pats = (0x01, 0x80, 0xFF)
    if tier == 'thorough' and (spec in ('digest', 'hmac', 'none', 'ed') or spec.startswith('hmac:')):
        for pos in range(n):
            for v in range(256):
                if v != wire[pos]:
                    yield f'@{pos}={v:02x}', wire[:pos] + bytes([v]) + wire[pos + 1:]
    else:
        for pos in range(n):
            for p in pats:
                v = wire[pos] ^ p
                yield f'@{pos}^{p:02x}', wire[:pos] + bytes([v]) + wire[pos + 1:]
            v = (wire[pos] + 1) & 0xFF
            yield f'@{pos}+1', wire[:pos] + bytes([v]) + wire[pos + 1:]
    for k in range(n):
        yield f'[:{k}]', wire[:k]
    top = ts.read_single(wire, minimal=False)
    for k in range(1, min(top.length, 80) + 1):
        yield f'refix-{k}', ts.tlv(top.typ, top.value[:top.length - k])
    for i, m in enumerate(c06.tlv_edits(wire)):
        yield f'edit{i}', m
    yield from value_truncations(wire)


def value_truncations(wire):
    """every proper prefix (and one-byte extension) of the value of every element at the two outer levels, all lengths re-encoded"""
    top = ts.read_single(wire, minimal=False)
    ch = top.children(minimal=False)
    for i, c in enumerate(ch):
        parts = [x.wire for x in ch]
        vals = [c.value[:k] for k in range(c.length)] + [c.value + b'\x00']
        # octets put in front of a value, or taken from its front (a signature read as a number would not notice leading zeros)
        vals += [b'\x00' + c.value, b'\x00\x00' + c.value, b'\x01' + c.value] + ([c.value[1:]] if c.length else [])
        for v in vals:
            p2 = list(parts)
            p2[i] = ts.tlv(c.typ, v)
            yield f'value[{i}][:{len(v)}]', ts.tlv(top.typ, b''.join(p2))
        if c.typ in (7, 0x14, 0x16, 0x2c, 0x1e):
            try:
                sub = c.children(minimal=False)
            except ts.Malformed:
                continue
            for j, g in enumerate(sub):
                sp = [x.wire for x in sub]
                for k in list(range(g.length)) + [g.length + 1]:
                    v = (g.value + b'\x00')[:k]
                    s2 = list(sp)
                    s2[j] = ts.tlv(g.typ, v)
                    p2 = list(parts)
                    p2[i] = ts.tlv(c.typ, b''.join(s2))
                    yield f'value[{i}.{j}][:{k}]', ts.tlv(top.typ, b''.join(p2))


def check_tamper(case, tier, acc):
    viol, base = check_cover(case)
    if base is None or viol:
        return viol
    wire, ref0 = base
    kind, spec = case['k'], case['signer']
    ver = verifier_for(spec) if spec != 'none' else None
    for label, mut in mutants(wire, spec, tier):
        acc.evaluations += 1
        acc.transitions += 1
        try:
            ref = ref_parse(kind, mut)
        except ts.Malformed:
            acc.no_claim += 1
            continue
        try:
            name, sig = lib_parse(kind, mut)
        except (enc.DecodeError, IndexError, ValueError, TypeError) as e:
            acc.outcome(f'{kind}|{spec}|rejected-by-parser')
            continue
        except Exception as e:  # noqa
            viol.append((f'C02|tamper|{kind}|{spec}|parse-raises:{type(e).__name__}', f'mutant {label}: {e!r}; case {case}'))
            continue
        # signature claim
        if ver is not None:
            sig_changed = ref['signed'] != ref0['signed'] or ref['sig_value'] != ref0['sig_value']
            claim = sig_changed
            if spec == 'digest' and (ref['sig_info'] is None or ref['sig_info']['type'] != 0):
                claim = False      # documented: the digest checker passes packets that are not DigestSha256-signed
            try:
                accepted = bool(run_coro(ver(name, sig)))
            except Exception as e:  # noqa
                viol.append((f'C02|tamper|{kind}|{spec}|verifier-raises:{type(e).__name__}', f'mutant {label}: {e!r}; case {case}'))
                accepted = False
            if claim:
                acc.nontrivial += 1
                if accepted:
                    where = 'sig-value' if ref['signed'] == ref0['signed'] else 'signed-portion'
                    viol.append((f'C02|tamper|{kind}|{spec}|forgery-accepted|{where}',
                                 f'mutant {label} differs from the signed packet in its {where} but the verifier accepts it; case {case}'))
                acc.outcome(f'{kind}|{spec}|tampered->{"ACCEPTED" if accepted else "rejected"}')
            else:
                acc.outcome(f'{kind}|{spec}|outside-signed-portion->{"accepted" if accepted else "rejected"}')
        # parameters digest claim
        if kind == 'I' and (ref['app'] is not None or ref['sig_info'] is not None):
            if ref['n_digest_comps'] <= 1 and ref['digest_cover'] is not None:
                want = ref['digest_value'] is not None and ref['digest_value'] == hashlib.sha256(ref['digest_cover']).digest()
                try:
                    got = bool(run_coro(params_sha256_checker(name, sig)))
                except Exception as e:  # noqa
                    viol.append((f'C02|tamper|I|{spec}|params-checker-raises:{type(e).__name__}', f'mutant {label}: {e!r}'))
                    continue
                if got != want:
                    viol.append((f'C02|tamper|I|{spec}|params-digest|checker={got}|expected={want}',
                                 f'mutant {label}: params_sha256_checker says {got}, digest component {"equals" if want else "differs from"} '
                                 f'SHA-256 of ApplicationParameters..end; case {case}'))
                acc.outcome(f'I|{spec}|params-digest->{got}')
    return viol


def plan(tier, seed):
    cases = list(base_cases(tier))
    units = [{'idx': i, 'tier': tier} for i in range(len(cases))]
    n_cert = len(list(cert_cases(tier)))
    units += [{'certs': [lo, min(n_cert, lo + 100)], 'tier': tier} for lo in range(0, n_cert, 100)]
    units.append({'union': True, 'tier': tier})
    return {
        'units': units,
        'rule': 'base packet = (kind, name shape, payload size, signer, ECDSA nonce index); for each base packet every single-byte '
                'substitution (pattern set per tier), every truncation, refixed truncations and TLV-level edits. Non-trivial = mutant that '
                'the reference reader still parses and whose signed portion or signature value differs from the original.',
        'bounds': {'base_packets': len(cases), 'certificates (cover clauses only)': n_cert, 'signers': ['digest', 'hmac', 'ed25519', 'rsa-2048', 'ecdsa-p256 (6/16 nonces)', 'none (digest only)'],
                   'substitution': '^01,^80,^ff,+1' if tier == 'quick' else 'all 255 values for digest/hmac/ed25519, 4 patterns for rsa/ecdsa'},
        'assumptions': ['sha256_digest_checker is documented to pass packets that are not DigestSha256-signed: its tamper claim is restricted '
                        'to mutants whose SignatureType is still 0',
                        'mutants the reference reader cannot parse carry no claim (counted as no_claim)',
                        'cryptographic strength is not examined: only single-edit tampering'],
    }


def union_cases():
    for kind in ('I', 'D'):
        for signer in ('digest', 'hmac', 'ed'):
            for shape in ('single', 'true-first', 'true-last', 'twice', 'false-last'):
                yield {'k': kind, 'name': ['a'], 'plen': 5, 'signer': signer, 'it': 0, 'shape': shape}


def run_union(case):
    """union_checker(...) is one verifier object used for many packets: genuine, tampered, genuine, tampered, ..."""
    from ndn.security import union_checker
    viol = []
    kind, spec = case['k'], case['signer']
    wire, rec = build(case)
    bad_wire = wire[:-2] + bytes([wire[-2] ^ 0x10]) + wire[-1:]
    ver = verifier_for(spec)

    async def yes(name, sig):
        return True

    async def no(name, sig):
        return False
    parts = {'single': (ver,), 'true-first': (yes, ver), 'true-last': (ver, yes), 'twice': (ver, ver), 'false-last': (ver, no)}[case['shape']]
    u = union_checker(*parts)
    got = []
    for i, w in enumerate((wire, bad_wire, wire, bad_wire, bad_wire, wire)):
        try:
            name, sig = lib_parse(kind, w)
            got.append(bool(run_coro(u(name, sig))))
        except Exception as e:  # noqa
            viol.append((f'C02|union|{kind}|{spec}|raises:{type(e).__name__}', f'call {i}: {e!r}; case {case}'))
            return viol
    want = [case['shape'] != 'false-last', False, case['shape'] != 'false-last', False, False, case['shape'] != 'false-last']
    if got != want:
        first = next(i for i in range(6) if got[i] != want[i])
        viol.append((f"C02|union|{kind}|{spec}|{'forgery-accepted' if got[first] else 'genuine-rejected'}|call={first}",
                     f'combined verifier {case["shape"]} over genuine/tampered/genuine/tampered/tampered/genuine packets answered {got}, '
                     f'expected {want}; case {case}'))
    return viol


def unit_certs(arg):
    acc = Acc()
    acc.state_hashes = None
    for case in list(cert_cases(arg['tier']))[arg['certs'][0]:arg['certs'][1]]:
        viol, ok = check_cover(case)
        acc.evaluations += 1
        acc.transitions += 1
        acc.nontrivial += 1
        acc.outcome(f"C|{case['signer']}|cover->{'ok' if not viol else 'viol'}|len={'?' if ok is None else ('<253' if len(ok[0]) < 256 else '>=253')}")
        acc.observe([case, [v[0] for v in viol]])
        for sig, what in viol:
            acc.violation(sig, what, {'cert': case})
    acc.state_count = acc.evaluations
    acc.sample({'certificate_cases': arg['certs'], 'last': case})
    return acc


def unit(arg):
    if 'union' in arg:
        acc = Acc()
        acc.state_hashes = None
        with owned_env(clock=FixedClock(), seed=2):
            for case in union_cases():
                viol = run_union(case)
                acc.evaluations += 1
                acc.state_count += 1
                acc.transitions += 6
                acc.nontrivial += 1
                acc.outcome(f"union|{case['shape']}|{'ok' if not viol else 'viol'}")
                acc.observe([case, [v[0] for v in viol]])
                for sig, what in viol:
                    acc.violation(sig, what, {'union': case})
        acc.sample({'union_shapes': ['single', 'true-first', 'true-last', 'twice', 'false-last'], 'calls': 'genuine, tampered, genuine, tampered, tampered, genuine'})
        return acc
    if 'certs' in arg:
        return unit_certs(arg)
    acc = Acc()
    acc.state_hashes = None
    case = list(base_cases(arg['tier']))[arg['idx']]
    with owned_env(clock=FixedClock(), seed=2):
        viol = check_tamper(case, arg['tier'], acc)
    acc.evaluations += 1
    acc.state_count = acc.evaluations
    acc.observe([case, sorted(acc.outcomes.items()), sorted({v[0] for v in viol})])
    acc.sample({'base_packet': case, 'mutants': acc.evaluations - 1, 'outcomes': dict(acc.outcomes)})
    seen = set()
    for sig, what in viol:
        if sig not in seen:
            seen.add(sig)
            acc.violation(sig, what, {'idx': arg['idx'], 'tier': arg['tier'], 'case': case})
    return acc


def replay(case):
    if 'union' in case:
        with owned_env(clock=FixedClock(), seed=2):
            return [{'sig': s, 'what': w} for s, w in run_union(case['union'])]
    if 'cert' in case:
        viol, _ = check_cover(case['cert'])
        return [{'sig': s, 'what': w} for s, w in viol]
    acc = unit({'idx': case['idx'], 'tier': case['tier']})
    return [{'sig': s, 'what': v[0]['what']} for s, v in acc.violations.items()]
