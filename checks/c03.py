"""
C03 - every expressed Interest completes exactly once with the right outcome.

E-sched: all macro orders of environment events (Data / Nack / tick / caller-cancel / shutdown /
late express) over 2-4 concurrently pending Interests on same and nested names, times all
placements of <= d micro deviations, on both front-ends, against the reference PIT
(mc/ref/pit_ref.py).  See DESIGN.md section 3, C03.
"""
from __future__ import annotations

import asyncio
import hashlib

import ndn.encoding as enc
from ndn import types as nt
from ndn.security import DigestSha256Signer

from ndn.transport.udp_face import UdpFace

from mc.core import Acc
from mc.explore import execute, explore, sub_multiset_orderings
from mc.ndnenv import HFace, FRONTENDS, owned_env, trie_size, exc_class
from mc.ref.pit_ref import acceptable_outcomes

PROPERTY = 'C03'
TITLE = 'Every expressed Interest completes exactly once with the right outcome'

# ---------------------------------------------------------------------------------------
# scenarios.  Interests: name, cbp, lifetime(ms), optional digest_of / digest='wrong', vlat, verdict
# packets: label -> data name | nack of interest index
# alphabet: events usable in scripts after the fixed prefix; 'xN' express, 'cN' caller-cancel,
#           't' tick to next timer, 's' shutdown, other labels = deliver that packet
# ---------------------------------------------------------------------------------------
SCENARIOS = {
    'S1': {
        'interests': [{'name': '/a', 'cbp': True, 'lifetime': 10}, {'name': '/a', 'cbp': False, 'lifetime': 10}],
        'packets': {'dA': {'data': '/a'}, 'dB': {'data': '/a/b'}, 'n0': {'nack': '/a', 'reason': 150}},
        'prefix': ['x0', 'x1'],
        'alphabet': ['dA', 'dB', 'n0', 'c0', 't', 't', 's'],
        'phase2': True,
    },
    'S2': {
        'interests': [{'name': '/a', 'cbp': True, 'lifetime': 10}, {'name': '/a/b', 'cbp': False, 'lifetime': 20},
                      {'name': '/a/b', 'cbp': False, 'lifetime': 20, 'digest_of': 'dB'},
                      {'name': '/a/b', 'cbp': False, 'lifetime': 20, 'digest': 'wrong'}],
        'packets': {'dB': {'data': '/a/b'}, 'dC': {'data': '/a/b/c'}, 'nB': {'nack': '/a/b', 'reason': 100},
                    'nD': {'nack': '/a/b', 'reason': 50, 'digest_of': 'dB'}},
        'prefix': ['x0', 'x1', 'x2', 'x3'],
        'alphabet': ['dB', 'dC', 'nB', 'nD', 't', 't', 's'],
    },
    'S3': {  # validator latency versus lifetime, two Interests sharing a node
        'interests': [{'name': '/a', 'cbp': False, 'lifetime': 10, 'vlat': 5},
                      {'name': '/a', 'cbp': True, 'lifetime': 10, 'vlat': 15}],
        'packets': {'dA': {'data': '/a'}},
        'prefix': ['x0', 'x1'],
        'alphabet': ['dA', 'dA', 't', 't', 't', 'c1', 's'],
    },
    'S3b': {  # validator finishing exactly at / after the deadline; re-express meanwhile
        'interests': [{'name': '/a', 'cbp': False, 'lifetime': 10, 'vlat': 10},
                      {'name': '/a', 'cbp': False, 'lifetime': 30, 'vlat': 0}],
        'packets': {'dA': {'data': '/a'}},
        'prefix': ['x0'],
        'alphabet': ['dA', 'dA', 't', 't', 't', 'x1'],
    },
    'S4': {  # re-express on a name whose earlier Interest already finished (stale timers, recreated node)
        'interests': [{'name': '/a', 'cbp': False, 'lifetime': 10}, {'name': '/a', 'cbp': False, 'lifetime': 10},
                      {'name': '/a/b', 'cbp': False, 'lifetime': 15}],
        'packets': {'dA': {'data': '/a'}, 'n0': {'nack': '/a', 'reason': 50}},
        'prefix': ['x0'],
        'alphabet': ['x1', 'x2', 'dA', 'dA', 'n0', 't', 't', 'c0'],
    },
    'S7': {  # one Data satisfying whole nodes at three depths; partial satisfaction of the chain
        'interests': [{'name': '/a', 'cbp': True, 'lifetime': 10}, {'name': '/a/b', 'cbp': True, 'lifetime': 10},
                      {'name': '/a/b/c', 'cbp': False, 'lifetime': 20}],
        'packets': {'dC': {'data': '/a/b/c'}, 'dB': {'data': '/a/b'}, 'nB': {'nack': '/a/b', 'reason': 150}},
        'prefix': ['x0', 'x1', 'x2'],
        'alphabet': ['dC', 'dB', 'nB', 't', 't', 'c1', 's'],
        'phase2': True,
    },
    'S5': {  # duplicates and late packets after completion / after cancel
        'interests': [{'name': '/a', 'cbp': False, 'lifetime': 10}, {'name': '/b', 'cbp': False, 'lifetime': 10}],
        'packets': {'dA': {'data': '/a'}, 'n0': {'nack': '/a', 'reason': 150}, 'dB': {'data': '/b'}},
        'prefix': ['x0', 'x1'],
        'alphabet': ['dA', 'dA', 'n0', 'n0', 'c0', 'dB', 't'],
        'phase2': True,
    },
}

for _k in ('S1', 'S4', 'S7'):
    SCENARIOS[_k + 'p'] = dict(SCENARIOS[_k], shared_param=True)
# S1 over the shipped UDP face (fake datagram transport that behaves like asyncio's: close() -> connection_lost(None))
SCENARIOS['S1u'] = dict(SCENARIOS['S1'], udp=True, phase2=False)
# S1 / S7 with the main-loop task being cancelled instead of an orderly shutdown
for _k in ('S1', 'S7'):
    SCENARIOS[_k + 'm'] = dict(SCENARIOS[_k], alphabet=[('m' if a == 's' else a) for a in SCENARIOS[_k]['alphabet']], phase2=False)
# the caller of Interest 0 does something else for 4 ms before it awaits the result (the second Interest's timer lets the clock stop
# at the common deadline)
SCENARIOS['S5d'] = {
    'interests': [{'name': '/a', 'cbp': False, 'lifetime': 10, 'await_delay': 4}, {'name': '/b', 'cbp': False, 'lifetime': 10}],
    'packets': {'dA': {'data': '/a'}, 'n0': {'nack': '/a', 'reason': 150}, 'dB': {'data': '/b'}},
    'prefix': ['x0', 'x1'],
    'alphabet': ['dA', 'n0', 'dB', 't', 't', 't'],
}
# the validator decides only after the deadline (rejecting / accepting) and the caller looks at the result later still
SCENARIOS['S3d'] = {
    'interests': [{'name': '/a', 'cbp': False, 'lifetime': 10, 'vlat': 15, 'verdict': 'reject', 'await_delay': 30},
                  {'name': '/b', 'cbp': False, 'lifetime': 12},       # (its timer lets the clock stop between the deadline and the verdict)
                  {'name': '/a', 'cbp': True, 'lifetime': 10, 'vlat': 15, 'verdict': 'accept', 'await_delay': 30}],
    'packets': {'dA': {'data': '/a'}, 'dB': {'data': '/b'}},
    'prefix': ['x0', 'x1', 'x2'],
    'alphabet': ['dA', 'dB', 't', 't', 't', 't'],
}
# S1 / S7 next to a second application object in the same process
for _k in ('S1', 'S7'):
    SCENARIOS[_k + 't'] = dict(SCENARIOS[_k], twin=True, phase2=False)
# S2 / S7 with DEBUG logging of the library turned on
for _k, _nc in (('S2', 'dC'), ('S7', 'dB')):
    SCENARIOS[_k + 'g'] = dict(SCENARIOS[_k], debug_logging=True, phase2=False,
                               packets={k: (dict(v, nocontent=True) if k == _nc else v) for k, v in SCENARIOS[_k]['packets'].items()})
# a lifetime of zero next to an ordinary Interest
SCENARIOS['S5z'] = {
    'interests': [{'name': '/a', 'cbp': False, 'lifetime': 0}, {'name': '/b', 'cbp': False, 'lifetime': 10}, {'name': '/a', 'cbp': True, 'lifetime': 10}],
    'packets': {'dA': {'data': '/a'}, 'dB': {'data': '/b'}},
    'prefix': ['x1'],
    'alphabet': ['x0', 'x2', 'dA', 'dA', 'dB', 't', 't'],
}
# S2 with the Data packets arriving inside link-layer envelopes
SCENARIOS['S2w'] = dict(SCENARIOS['S2'], packets={k: (dict(v, lp=True) if 'data' in v else v) for k, v in SCENARIOS['S2']['packets'].items()})

# MustBeFresh is the forwarder's business: a Data without (or with a zero) FreshnessPeriod that comes back satisfies the Interest
SCENARIOS['S1f'] = dict(SCENARIOS['S1'], phase2=False,
                        interests=[dict(it, mbf=True) for it in SCENARIOS['S1']['interests']],
                        packets=dict(SCENARIOS['S1']['packets'], dB={'data': '/a/b', 'fresh': 0}))
# lifetimes of one and two milliseconds, three Interests expressed in the same instant
SCENARIOS['S7k'] = dict(SCENARIOS['S7'], phase2=False,
                        interests=[dict(it, lifetime=lt) for it, lt in zip(SCENARIOS['S7']['interests'], (1, 1, 2))])
# express_raw_interest with a final name the application keeps as one list object and passes again (retransmission): two callers
# with a digest that no packet has share one list, two callers with the digest of dB share another
SCENARIOS['S8r'] = {
    'interests': [{'name': '/a/b', 'cbp': False, 'lifetime': 20, 'digest': 'wrong', 'rawx': 'L'},
                  {'name': '/a/b', 'cbp': False, 'lifetime': 20, 'digest': 'wrong', 'rawx': 'L'},
                  {'name': '/a/b', 'cbp': False, 'lifetime': 20, 'digest_of': 'dB', 'rawx': 'M'},
                  {'name': '/a/b', 'cbp': False, 'lifetime': 20, 'digest_of': 'dB', 'rawx': 'M'}],
    'packets': {'dB': {'data': '/a/b'}, 'nB': {'nack': '/a/b', 'reason': 100}},
    'prefix': ['x0'],
    'alphabet': ['x1', 'x2', 'x3', 'dB', 'dB', 'nB', 't', 't'],
}

LEN = {'quick': {'S1f': 3, 'S7k': 4, 'S8r': 5, 'S1': 5, 'S2': 5, 'S3': 5, 'S3b': 5, 'S4': 5, 'S5': 5, 'S7': 5, 'S1p': 4, 'S4p': 4, 'S7p': 4, 'S2w': 4, 'S1m': 4, 'S7m': 4, 'S5d': 4, 'S3d': 5, 'S1u': 4, 'S5z': 4, 'S2g': 3, 'S7g': 3, 'S1t': 3, 'S7t': 3},
       'thorough': {'S1f': 4, 'S7k': 5, 'S8r': 6, 'S1': 6, 'S2': 6, 'S3': 6, 'S3b': 6, 'S4': 6, 'S5': 6, 'S7': 6, 'S1p': 5, 'S4p': 5, 'S7p': 5, 'S2w': 5, 'S1m': 5, 'S7m': 5, 'S5d': 5, 'S3d': 6, 'S1u': 5, 'S5z': 5, 'S2g': 4, 'S7g': 4, 'S1t': 4, 'S7t': 4}}
DEV = {'quick': 1, 'thorough': 2}


class UdpHFace(UdpFace):
    """the shipped UDP face on the virtual loop's datagram transport; the harness holds the other end"""

    def __init__(self, trace):
        super().__init__('127.0.0.1', 6363)
        self.trace = trace

    @property
    def sent(self):
        return self.transport.sent if hasattr(self, 'transport') else []

    def deliver(self, wire, typ=None, label=None):
        orig, trace = self.callback, self.trace
        loop = asyncio.get_running_loop()

        async def cb(t, d):
            trace.append(('rx', label, loop.us))
            await orig(t, d)
        self.handler.callback = cb
        self.handler.datagram_received(wire, ('127.0.0.1', 6363))


V2_VALUES = {'accept': nt.ValidResult.PASS, 'reject': nt.ValidResult.FAIL, 'PASS': nt.ValidResult.PASS,
             'FAIL': nt.ValidResult.FAIL, 'TIMEOUT': nt.ValidResult.TIMEOUT, 'SILENCE': nt.ValidResult.SILENCE,
             'BYPASS': nt.ValidResult.ALLOW_BYPASS, 'None': None, 'True': True, 'False': False, '0': 0, '1': 1}
LEGACY_VALUES = {'accept': True, 'reject': False, 'True': True, 'False': False, 'None': None, '0': 0, '1': 1,
                 'empty': '', 'text': 'x'}


def verdict_value(token, fe_name):
    return (V2_VALUES if fe_name == 'v2' else LEGACY_VALUES)[token]


def verdict_accepts(token, fe_name):
    """the statement: v2 accepts exactly PASS and ALLOW_BYPASS; the legacy front-end accepts by truthiness"""
    if fe_name == 'v2':
        return token in ('accept', 'PASS', 'BYPASS')
    return bool(LEGACY_VALUES[token])


def script_valid(seq):
    # nothing is delivered or expressed... after shutdown except clock ticks; cancel only after its express fired
    if ('s' in seq[:-1] or 'm' in seq[:-1]) and seq[-1] != 't':
        return False
    last = seq[-1]
    if last[0] == 'c' and last[1:].isdigit():
        pass
    return True


def scripts_for(sname, max_len):
    sp = SCENARIOS[sname]
    tails = sub_multiset_orderings(sp['alphabet'], max_len, valid=script_valid)
    out = []
    for t in tails:
        full = tuple(sp['prefix']) + t
        # a cancel is meaningful only after the express of that caller fired
        ok = True
        for k, ev in enumerate(full):
            if ev[0] == 'c' and ev[1:].isdigit() and ('x' + ev[1:]) not in full[:k]:
                ok = False
        if ok:
            out.append(full)
    return out


# ---------------------------------------------------------------------------------------
def comps_of(uri):
    return [bytes(c).hex() for c in enc.Name.from_str(uri)]


class Built:
    """wires + reference descriptions of a scenario (deterministic)"""

    def __init__(self, sname):
        sp = SCENARIOS[sname]
        self.spec = sp
        self.packets = {}
        self.ref_packets = {}
        for label, p in sp['packets'].items():
            if 'data' in p:
                content = None if p.get('nocontent') else ('content-of-' + label).encode()       # a Data packet need not have a Content element
                wire = bytes(enc.make_data(p['data'], enc.MetaInfo(freshness_period=p.get('fresh')), content, DigestSha256Signer()))
                # 'lp': the same Data inside a link-layer envelope (CongestionMark header); the packet hash is that of the Data
                self.packets[label] = (b'\x64' + bytes([len(wire) + 7]) + b'\xfd\x03\x40\x01\x01' + b'\x50' + bytes([len(wire)]) + wire
                                       if p.get('lp') else wire)
                self.ref_packets[label] = {'kind': 'data', 'comps': comps_of(p['data']),
                                           'sha256': hashlib.sha256(wire).hexdigest(), 'content': content}
        for label, p in sp['packets'].items():
            if 'nack' in p:
                nname = enc.Name.from_str(p['nack'])
                dg = None
                if 'digest_of' in p:
                    dg = self.ref_packets[p['digest_of']]['sha256']
                    nname = nname + [enc.Component.from_bytes(bytes.fromhex(dg), enc.Component.TYPE_IMPLICIT_SHA256)]
                inner = bytes(enc.make_interest(nname, enc.InterestParam(nonce=7, lifetime=10)))
                wire = bytes(enc.make_network_nack(inner, p['reason']))
                self.packets[label] = wire
                self.ref_packets[label] = {'kind': 'nack', 'comps': comps_of(p['nack']), 'reason': p['reason'],
                                           'digest': dg}
        self.interests = {}
        for i, it in enumerate(sp['interests']):
            d = None
            if 'digest_of' in it:
                d = self.ref_packets[it['digest_of']]['sha256']
            elif it.get('digest') == 'wrong':
                d = '00' * 32
            self.interests[i] = {'comps': comps_of(it['name']), 'cbp': it['cbp'], 'digest': d, 'await_delay': it.get('await_delay', 0),
                                 'lifetime': it['lifetime'], 'vlat': it.get('vlat', 0),
                                 'verdict': it.get('verdict', 'accept'), 'name': it['name'], 'raw': it.get('raw', False),
                                 'mbf': it.get('mbf', False), 'rawx': it.get('rawx')}


_BUILT = {}


def built(sname):
    if sname not in _BUILT:
        _BUILT[sname] = Built(sname)
    return _BUILT[sname]


class PitScenario:
    def __init__(self, loop, trace, sname, fe_name):
        self.loop = loop
        self.trace = trace
        self.b = built(sname)
        self.fe = FRONTENDS[fe_name]
        self.env = owned_env(loop)
        self.callers = {}
        self.outcomes = {}
        self.n_done = {}
        self.expressed_ok = 0
        self.fail_results = {}
        self.shared_param = enc.InterestParam()
        self.raw_names = {}

    def close(self):
        if getattr(self, 'dbg', None) is not None:
            self.dbg.__exit__(None, None, None)
        self.env.__exit__(None, None, None)

    def setup(self):
        self.env.__enter__()
        self.dbg = None
        if self.b.spec.get('debug_logging'):
            # the application has DEBUG logging of the library on: every log line is formatted
            from mc.ndnenv import debug_logging
            self.dbg = debug_logging()
            self.dbg.__enter__()
        self.face = UdpHFace(self.trace) if self.b.spec.get('udp') else HFace(self.trace)
        self.delivered_names, self.bad_vnames = [], []
        self.app = self.fe.make_app(self.face)
        self.main = self.loop.create_task(self.app.main_loop())
        self.loop.drain()
        assert self.face.running
        self.twin = None
        if self.b.spec.get('twin'):
            # a second application object in the same process, with a face of its own: it sends one Interest on a name the
            # scenario uses and never hears anything; whatever happens to the first application is none of its business
            face2 = HFace()
            app2 = self.fe.make_app(face2)
            main2 = self.loop.create_task(app2.main_loop())
            self.loop.drain()
            if self.fe.name == 'v2':
                coro = self.fe.express(app2, enc.Name.from_str(self.b.interests[0]['name']), can_be_prefix=True, lifetime=1, nonce=4242)
            else:
                # the legacy call sends nothing before it is awaited: a task of the twin awaits it right away, with a lifetime that
                # outlasts the scenario
                self.twin_res = {}

                async def twin_caller():
                    try:
                        await self.fe.express(app2, enc.Name.from_str(self.b.interests[0]['name']), can_be_prefix=True, lifetime=600000, nonce=4242)
                        self.twin_res['o'] = 'data'
                    except BaseException as e:  # noqa
                        self.twin_res['o'] = exc_class(e)
                self.loop.create_task(twin_caller())
                self.loop.drain()
                coro = None
            self.twin = (app2, face2, main2, coro)

    def label_of(self, name, content):
        for label, rp in self.b.ref_packets.items():
            if rp['kind'] == 'data' and (None if content is None else bytes(content)) == rp['content'] \
                    and [bytes(c).hex() for c in name] == rp['comps']:
                return label
        return '?'

    def _validator(self, i):
        it = self.b.interests[i % 100]
        trace, loop = self.trace, self.loop
        value = verdict_value(it['verdict'], self.fe.name)

        def seen(name):
            # the validator judges the packet that arrived: it is given that packet's own name
            if [bytes(c).hex() for c in name] not in self.delivered_names:
                self.bad_vnames.append((i, '/'.join(bytes(c)[2:].decode('latin1') for c in name)))

        async def v2_validator(name, sig, ctx):
            seen(name)
            trace.append(('vstart', i, loop.us))
            if it['vlat']:
                await asyncio.sleep(it['vlat'] / 1000)
            trace.append(('vdone', i, loop.us))
            return value

        async def legacy_validator(name, sig):
            seen(name)
            trace.append(('vstart', i, loop.us))
            if it['vlat']:
                await asyncio.sleep(it['vlat'] / 1000)
            trace.append(('vdone', i, loop.us))
            return value
        return v2_validator if self.fe.name == 'v2' else legacy_validator

    async def _caller(self, i):
        it = self.b.interests[i % 100]
        name = enc.Name.from_str(it['name'])
        if it['digest'] is not None:
            name = name + [enc.Component.from_bytes(bytes.fromhex(it['digest']), enc.Component.TYPE_IMPLICIT_SHA256)]
        out = None
        try:
            if it.get('await_delay') and self.fe.name == 'legacy':
                # express_interest is a coroutine function: nothing happens before it is awaited, so for the legacy front-end
                # "express, do something else, then await" is the same as expressing later
                await asyncio.sleep(it['await_delay'] / 1000)
            self.trace.append(('expressed', i, self.loop.us))
            if self.b.spec.get('shared_param'):
                # the application keeps one InterestParam object and adjusts it before every express()
                p = self.shared_param
                p.can_be_prefix, p.lifetime, p.nonce, p.must_be_fresh = it['cbp'], it['lifetime'], 1000 + i, False
                coro = self.fe.express(self.app, name, validator=self._validator(i), interest_param=p)
            elif it.get('rawx'):
                # the application builds the Interest itself and keeps the final name as a list of encoded components, which it
                # passes again whenever it sends that Interest again
                final = self.raw_names.setdefault(it['rawx'], [bytes(c) for c in name])
                ip = enc.InterestParam(can_be_prefix=it['cbp'], lifetime=it['lifetime'], nonce=1000 + i)
                wire = enc.make_interest(list(final), ip)
                coro = self.app.express_raw_interest(final, ip, wire, self._validator(i))
            elif it.get('raw') and self.fe.name == 'legacy':
                # the caller also asks for the raw packet bytes (4-tuple result)
                coro = self.fe.express(self.app, name, validator=self._validator(i), lifetime=it['lifetime'],
                                       can_be_prefix=it['cbp'], nonce=1000 + i, need_raw_packet=True)
            else:
                coro = self.fe.express(self.app, name, validator=self._validator(i), lifetime=it['lifetime'],
                                       can_be_prefix=it['cbp'], nonce=1000 + i, **({'must_be_fresh': True} if it.get('mbf') else {}))
            self.expressed_ok += 1
            if it.get('await_delay') and self.fe.name != 'legacy':
                # the caller does something else before it awaits the result
                await asyncio.sleep(it['await_delay'] / 1000)
                self.trace.append(('awaited', i, self.loop.us))
            res = await coro
            n, c = self.fe.result(res)
            out = 'data:' + self.label_of(n, c)
        except nt.NetworkError:
            out = 'neterr'
        except nt.ValidationFailure as e:
            out = 'invalid:' + self.label_of(e.name, e.content)
            self.fail_results[i] = e.result
        except BaseException as e:  # noqa
            out = exc_class(e)
            if out.startswith('error:'):
                from mc.vloop import tb_where
                out += '@' + tb_where(e)
        self.outcomes[i] = out
        self.n_done[i] = self.n_done.get(i, 0) + 1
        self.trace.append(('done', i, out, self.loop.us))

    def fire(self, ev):
        if ev[0] == 'x':
            i = int(ev[1:])
            self.callers[i] = self.loop.create_task(self._caller(i))
        elif ev[0] == 'c' and ev[1:].isdigit():
            i = int(ev[1:])
            t = self.callers.get(i)
            if t is not None and not t.done():
                t.cancel()
        elif ev == 's':
            self.app.shutdown()
        elif ev == 'm':
            self.main.cancel()          # the task running main_loop is cancelled (Ctrl+C): face down, everything pending is cancelled
        else:
            if self.face.running:
                rp = self.b.ref_packets.get(ev)
                if rp is not None and rp['kind'] == 'data':
                    self.delivered_names.append(rp['comps'])
                self.face.deliver(self.b.packets[ev], label=ev)
            else:
                self.trace.append(('skipped', ev))

    def finish(self):
        loop = self.loop
        obs = {'phase1_pit': trie_size(self.fe.pit(self.app)), 'running': self.face.running, 'bad_vnames': list(self.bad_vnames)}
        obs['sent1'] = len(self.face.sent)
        obs['expressed1'] = self.expressed_ok
        # behavioural witness that nothing remains pending: re-deliver every packet, nothing may change
        before = dict(self.outcomes)
        if self.face.running:
            for label in self.b.packets:
                self.face.deliver(self.b.packets[label], label='again-' + label)
                loop.settle()
            obs['redeliver_changed'] = before != self.outcomes
            obs['redeliver_sent'] = len(self.face.sent) - obs['sent1']
            # phase 2: the same Interests again on the used application object, fixed d=0 script
            if self.b.spec.get('phase2'):
                for i in self.b.interests:
                    self.callers[100 + i] = loop.create_task(self._caller(100 + i))
                    loop.drain()
                    self.trace.append(('quiescent',))
                for label in self.b.packets:
                    self.face.deliver(self.b.packets[label], label=label)
                    loop.drain()
                    self.trace.append(('quiescent',))
                while True:
                    nxt = loop.next_timer_us()
                    if nxt is None:
                        break
                    loop.advance_to_us(nxt)
                    self.trace.append(('fire', 'tick', loop.us, -1))
                    loop.drain()
                    self.trace.append(('quiescent',))
                obs['phase2_pit'] = trie_size(self.fe.pit(self.app))
            self.app.shutdown()
            loop.settle()
        if self.twin is not None:
            app2, face2, main2, coro = self.twin
            res = {}

            async def wait_twin():
                try:
                    await coro
                    res['o'] = 'data'
                except BaseException as e:  # noqa
                    res['o'] = exc_class(e)
            if coro is not None:
                loop.create_task(wait_twin())
            loop.settle()
            if coro is None:
                res = self.twin_res
            obs['twin'] = (res.get('o'), len(face2.sent))
            app2.shutdown()
            loop.settle()
        obs['main_done'] = self.main.done()
        obs['main_exc'] = (type(self.main.exception()).__name__
                           if self.main.done() and not self.main.cancelled() and self.main.exception() else None)
        for i, t in self.callers.items():
            if i not in self.outcomes and t.cancelled():
                self.outcomes[i] = 'canceled'      # cancelled by the caller before its first step
        obs['outcomes'] = {str(k): v for k, v in sorted(self.outcomes.items())}
        obs['undone'] = sorted(i for i, t in self.callers.items() if not t.done())
        obs['n_done'] = {str(k): v for k, v in self.n_done.items()}
        obs['fail_results'] = {str(k): repr(v) for k, v in self.fail_results.items()}
        obs['task_failures'] = loop.task_failures(ignore=set(self.callers.values()))
        obs['handler'] = list(loop.handler_reports)
        obs['pending_tasks'] = len(loop.pending_tasks())
        return obs


def judge(sname, fe_name, run):
    """list of (sig, what) for one execution"""
    b = built(sname)
    obs = run.obs
    viol = []
    interests = {}
    for i, it in b.interests.items():
        it = dict(it)
        it['verdict'] = 'accept' if verdict_accepts(it['verdict'], fe_name) else 'reject'
        interests[i] = it
        interests[100 + i] = it
    acc, _first = acceptable_outcomes(run.trace, interests, b.ref_packets, legacy=(fe_name == 'legacy'))
    # the statement read literally also for the legacy front-end: the deadline covers the validation (recorded finding, see DESIGN 8.3)
    strict = acceptable_outcomes(run.trace, interests, b.ref_packets, legacy=False)[0] if fe_name == 'legacy' else acc
    for i, nm in obs.get('bad_vnames', ()):
        viol.append((f'C03|{fe_name}|validator-given-another-name', f'the validator of Interest {i} of {sname} was asked about the name /{nm}, which no '
                                                                   f'delivered Data packet carries'))
    callers = {int(e[1][1:]) for e in run.trace if e[0] == 'fire' and isinstance(e[1], str)
               and e[1][0] == 'x' and e[1][1:].isdigit()}
    callers |= {int(k) for k in obs['outcomes']}
    for i in sorted(callers):
        got = obs['outcomes'].get(str(i))
        allowed = acc.get(i, set())
        if got is None:
            viol.append((f'C03|{fe_name}|never-completes|allowed={"/".join(sorted(cls(a) for a in allowed))}',
                         f'Interest {i} of {sname} never completed; acceptable: {sorted(allowed)}'))
        elif got not in allowed:
            viol.append((f'C03|{fe_name}|wrong-outcome|got={cls(got)}|allowed={"/".join(sorted(cls(a) for a in allowed))}',
                         f'Interest {i} of {sname} finished with {got}; acceptable per reference PIT: {sorted(allowed)}'))
        elif got not in strict.get(i, set()) and cls(got) in ('data', 'invalid') and {cls(a) for a in strict.get(i, set())} == {'timeout'}:
            viol.append((f'C03|legacy|verdict-after-deadline|got={cls(got)}',
                         f'Interest {i} of {sname}: the Data arrived in time, the validator answered only after the deadline, and the caller got '
                         f'{got} instead of a timeout'))
    # a timeout is reported at the deadline (or at once when the result is fetched only after it), not some time later: once
    # the clock has reached the deadline, the timeout must be out before the ready queue has drained
    t_expr, t_await = {}, {}
    for e in run.trace:
        if e[0] == 'expressed':
            t_expr[e[1]] = e[2]
        elif e[0] == 'awaited':
            t_await[e[1]] = e[2]
    for i, t0 in t_expr.items():
        if i not in interests or obs['outcomes'].get(str(i)) != 'timeout':
            continue
        # (the legacy front-end sends the Interest when the call is first awaited: its lifetime starts there)
        start = t0 if fe_name == 'v2' else max(t0, t_await.get(i, 0))
        due = max(start + interests[i]['lifetime'] * 1000, t_await.get(i, 0))
        reached = False
        started = False
        for e in run.trace:
            if e[0] == 'expressed' and e[1] == i:
                started = True
            if not started:
                continue
            if len(e) > 2 and isinstance(e[2], int) and ((e[0] == 'fire' and e[1] == 'tick') or e[0] == 'awaited') and e[2] >= due:
                reached = True
            if e[0] == 'done' and e[1] == i:
                break
            if e[0] == 'quiescent' and reached:
                viol.append((f'C03|{fe_name}|timeout-late', f'Interest {i} of {sname}: its deadline (+{due} us) passed and the ready queue drained '
                                                            f'before the timeout was reported'))
                break
    for tf in obs['task_failures']:
        viol.append((f"C03|{fe_name}|task-error|{tf['exception']}@{tf['where']}",
                     f"background task {tf['task']} ended with unhandled {tf['exception']} at {tf['where']}"))
    for h in obs['handler']:
        viol.append((f"C03|{fe_name}|loop-handler|{h.get('exception')}@{h.get('where')}",
                     f"event-loop exception handler called: {h}"))
    if obs.get('phase1_pit') not in (None, 0) and obs['running']:
        viol.append((f'C03|{fe_name}|pit-not-empty', f"{obs['phase1_pit']} pending-Interest table node(s) remain after "
                                                       f"every Interest finished"))
    if obs.get('twin') is not None and tuple(obs['twin']) != ('timeout', 1):
        viol.append((f"C03|{fe_name}|second-application-affected|{obs['twin'][0]}",
                     f"an Interest pending in a second application object (own face, nothing delivered to it) ended with {obs['twin'][0]} "
                     f"after {obs['twin'][1]} packet(s) sent; it can only time out"))
    if obs.get('phase2_pit') not in (None, 0):
        viol.append((f'C03|{fe_name}|pit-not-empty-2', f"{obs['phase2_pit']} node(s) remain after second round"))
    if obs.get('redeliver_changed') or obs.get('redeliver_sent'):
        viol.append((f'C03|{fe_name}|redeliver-effect', 'late re-delivery changed an outcome or caused output'))
    if obs['sent1'] != obs['expressed1']:
        viol.append((f'C03|{fe_name}|face-output', f"{obs['sent1']} packets sent for {obs['expressed1']} expressed Interests"))
    if not obs['main_done'] or obs['main_exc']:
        viol.append((f"C03|{fe_name}|main-loop|{obs['main_exc']}", 'main_loop did not end cleanly after shutdown'))
    return viol


def cls(o):
    """outcome class for signatures"""
    return o.split(':')[0] if not o.startswith('error:') else o


# ---------------------------------------------------------------------------------------
def plan(tier, seed):
    units = []
    nscripts = 0
    for sname in LEN[tier]:
        scripts = scripts_for(sname, LEN[tier][sname])
        nscripts += len(scripts) * 2
        chunk = 40 if tier == 'quick' else 12
        for fe in ('v2', 'legacy'):
            for k in range(0, len(scripts), chunk):
                units.append({'sc': sname, 'fe': fe, 'lo': k, 'hi': min(len(scripts), k + chunk),
                              'len': LEN[tier][sname], 'd': DEV[tier]})
    return {
        'units': units,
        'rule': 'executions = (scenario, front-end, script, deviation placement); scripts = all orderings of all '
                'sub-multisets of the scenario alphabet up to the length bound after the fixed express prefix; '
                'deviations = firing the next environment event while callbacks are still queued, or a non-default '
                'order of same-instant timers. Non-trivial = at least two environment events that can complete the '
                'same Interest, or two Interests touched by one packet. states = distinct fingerprints of '
                '(outcomes so far, table sizes, pending timers) at quiescent points.',
        'bounds': {'scenarios': list(LEN[tier]), 'script_len_after_prefix': LEN[tier], 'deviation_bound': DEV[tier],
                   'scripts': nscripts, 'front_ends': ['appv2.NDNApp.express', 'app.NDNApp.express_interest']},
        'assumptions': ['asyncio callbacks run FIFO; time advances only at tick events (virtual clock)',
                        'same-instant rule: candidates completing one Interest before the ready queue drains are all accepted',
                        'a Nack names exactly the Interests with the same name including the implicit digest component'],
    }


def unit(arg):
    acc = Acc()
    sname, fe = arg['sc'], arg['fe']
    scripts = scripts_for(sname, arg['len'])[arg['lo']:arg['hi']]
    factory = lambda loop, trace: PitScenario(loop, trace, sname, fe)  # noqa

    for script in scripts:
        def on_run(run, script=script):
            acc.evaluations += 1
            acc.transitions += run.steps + len(run.script)
            obs = run.obs
            acc.observe([sname, fe, list(script), run.choices, obs['outcomes'], obs['task_failures']])
            acc.outcome(f"{sname}/{fe}:" + ','.join(f'{k}={cls(v)}' for k, v in obs['outcomes'].items() if int(k) < 100))
            # fingerprints at quiescent points: outcomes so far + clock + number of events fired
            done = []
            fired = 0
            for e in run.trace:
                if e[0] == 'done':
                    done.append((e[1], e[2]))
                elif e[0] == 'fire':
                    fired += 1
                elif e[0] == 'quiescent':
                    acc.state((sname, fe, tuple(sorted(done)), fired, tuple(script[:fired])))
            ncand = sum(1 for e in run.trace if e[0] in ('rx',)) + sum(1 for e in script if e in ('t', 's', 'm') or e[0] == 'c')
            if ncand >= 2:
                acc.nontrivial += 1
            for sig, what in judge(sname, fe, run):
                acc.violation(sig, what, {'scenario': sname, 'fe': fe, 'script': list(script), 'choices': list(run.choices)})
            if acc.evaluations % 997 == 1:
                acc.sample({'scenario': sname, 'fe': fe, 'script': list(script), 'choices': list(run.choices),
                            'outcomes': obs['outcomes']})
        explore(factory, script, arg['d'], on_run)
    acc.max_dev_completed = arg['d']
    return acc


def replay(case):
    sname, fe = case['scenario'], case['fe']
    factory = lambda loop, trace: PitScenario(loop, trace, sname, fe)  # noqa
    run = execute(factory, tuple(case['script']), tuple(case['choices']))
    return [{'sig': s, 'what': w} for s, w in judge(sname, fe, run)]


if __name__ == '__main__':
    import json, sys
    rec = json.load(open(sys.argv[1]))
    case = rec['case']
    factory = lambda loop, trace: PitScenario(loop, trace, case['scenario'], case['fe'])  # noqa
    run = execute(factory, tuple(case['script']), tuple(case['choices']))
    print(case)
    for e in run.trace:
        print('  ', e)
    print(run.obs)
    print(judge(case['scenario'], case['fe'], run))
