"""
C04 - incoming Interests reach exactly the handler of their longest registered prefix.

lookup : every subset S of a prefix universe (names of length 0..3 over {a,b}) attached with rotating
         representations (URI / component list / wire bytes / memoryview); every Interest name of length
         0..4 over {a,b,c} delivered through the real receive path; the handler called must be the one at
         the longest element of S that is a prefix (naive list comparison), exactly once, else none.
hist   : every attach/detach history up to a depth over 4 nested/sibling prefixes; after every step the whole
         lookup table is compared with a reference dict; duplicate attach must raise ValueError and change nothing.
reply  : (appv2) lifetime x reply instant around the deadline x repeated replies; bytes on the face iff the
         lifetime has not elapsed, return value truthy iff bytes were written.
APIs: appv2.attach_handler/detach_handler, app.set_interest_filter/unset_interest_filter, Dispatcher.
"""
from __future__ import annotations

import itertools

import ndn.encoding as enc
from ndn import types as nt
from mc.ref import ndn_strict as ns
from mc.ref import tlv_strict as ts
from ndn.app_support.dispatcher import Dispatcher

from mc.core import Acc
from mc.vloop import VLoop
from mc.ndnenv import HFace, FRONTENDS, owned_env

PROPERTY = 'C04'


def names_over(alpha, max_len):
    out = []
    for n in range(max_len + 1):
        out.extend(itertools.product(alpha, repeat=n))
    return out


U3 = names_over('ab', 3)         # 15 prefixes
U2 = names_over('ab', 2)         # 7 prefixes
PROBES4 = names_over('abc', 4)   # 121 Interest names
PROBES3 = names_over('abc', 3)   # 40


def comps(t):
    return [bytes(enc.Component.from_str(c)) for c in t]


def as_repr(t, k):
    k %= 4
    if k == 0:
        return '/' + '/'.join(t)
    if k == 1:
        return comps(t)
    wire = bytes(enc.Name.encode(comps(t)))
    if k == 2:
        return wire
    return memoryview(bytearray(wire))


_WIRES = {}


def interest_wire(t, lifetime=4000):
    key = (t, lifetime)
    if key not in _WIRES:
        # the optional fields of an Interest do not matter for the routing: they rotate with the name (HopLimit 0 is what the last hop
        # - a local forwarder handing the Interest to its application - leaves in the packet)
        v = (len(t) * 5 + sum((i + 1) * ord(str(x)[-1]) for i, x in enumerate(t))) % 6
        extra = [{}, {'hop_limit': 0}, {'hop_limit': 255, 'can_be_prefix': True}, {'must_be_fresh': True}, {'hop_limit': 1, 'forwarding_hint': [['h']]},
                 {'can_be_prefix': True, 'must_be_fresh': True, 'hop_limit': 0}][v]
        _WIRES[key] = bytes(enc.make_interest(comps(t), enc.InterestParam(nonce=0x01020304, lifetime=lifetime, **extra)))
    return _WIRES[key]


def ref_lookup(attached: dict, t):
    """naive longest prefix over python tuples"""
    best = None
    for p in attached:
        if len(p) <= len(t) and tuple(t[:len(p)]) == tuple(p):
            if best is None or len(p) > len(best):
                best = p
    return best


class Table:
    """one of the three APIs behind a uniform attach / detach / probe interface"""

    def __init__(self, api, share=None):
        """share: another Table whose event loop this one runs on (two applications in one process)"""
        self.api = api
        self.log = []
        self.log_forms = []
        self.shared = share is not None
        if api == 'dispatcher':
            self.loop = None
            self.d = Dispatcher()
        elif share is not None:
            self.loop, self.env = share.loop, share.env
        else:
            self.loop = VLoop()
            self.loop.enter()
            self.env = owned_env(self.loop)
            self.env.__enter__()
        if api != 'dispatcher':
            self.face = HFace()
            self.fe = FRONTENDS[api]
            self.app = self.fe.make_app(self.face)
            self.main = self.loop.create_task(self.app.main_loop())
            self.loop.drain()

    def close(self):
        if self.loop is not None:
            try:
                self.app.shutdown()
                self.loop.settle()
            finally:
                if not self.shared:
                    self.env.__exit__(None, None, None)
                    self.loop.__exit__(None, None, None)

    def _handler(self, tag):
        log = self.log
        if tag[1:].isdigit() and int(tag[1:]) % 3 == 2:
            # every third handler is a work queue: an object that is called like a function and keeps what it was given (a list
            # subclass) until the application has worked it off.  Whenever it is empty it is false in a boolean context
            class WorkQueue(list):
                def __call__(self, name, *rest):
                    self.append(name)
                    log.append((tag, tuple(bytes(c) for c in name)))
            q = WorkQueue()
            self.queues = getattr(self, 'queues', [])
            self.queues.append(q)
            return q
        if self.api == 'v2':
            def h(name, app_param, reply, ctx):
                log.append((tag, tuple(bytes(c) for c in name)))
        else:
            def h(name, param, app_param):
                log.append((tag, tuple(bytes(c) for c in name)))
        return h

    def _validator(self, tag, accept=True):
        log = self.log
        if self.api == 'v2':
            from ndn import types as nt

            async def v(name, sig, ctx):
                log.append(('validator', tag))
                return nt.ValidResult.PASS if accept else nt.ValidResult.FAIL
        else:
            async def v(name, sig):
                log.append(('validator', tag))
                return accept
        return v

    def attach(self, t, rep, tag, accept=True):
        nm = as_repr(t, rep)
        if isinstance(nm, str):
            # the application has converted this very URI before and went on to build a longer name from the result
            earlier = enc.Name.normalize(nm)
            earlier.append(bytearray(b'\x08\x03seg'))
            del earlier
        if self.api == 'v2':
            self.app.attach_handler(nm, self._handler(tag), self._validator(tag, accept))
        elif self.api == 'legacy':
            self.app.set_interest_filter(nm, self._handler(tag), self._validator(tag, accept))
        else:
            self.d.register(nm, self._handler(tag))

    def probe_signed(self, t):
        """deliver a signed Interest named t: the validator attached with the handler is consulted, then the handler runs"""
        del self.log[:]
        if self.api == 'dispatcher':
            return None
        key = ('signed', t)
        if key not in _WIRES:
            from ndn.security import DigestSha256Signer
            _WIRES[key] = bytes(enc.make_interest(comps(t), enc.InterestParam(nonce=0x0a0b0c0d, lifetime=4000), b'p',
                                                  DigestSha256Signer(for_interest=True)))
        self.face.deliver(_WIRES[key])
        self.loop.drain()
        for q in getattr(self, 'queues', []):
            del q[:]            # the application works its queues off
        return [(x[0], x[1]) if x[0] == 'validator' else (x[0],) for x in self.log]

    def detach(self, t, rep):
        nm = as_repr(t, rep)
        if self.api == 'v2':
            self.app.detach_handler(nm)
        elif self.api == 'legacy':
            self.app.unset_interest_filter(nm)
        else:
            self.d.unregister(nm)

    def probe(self, t):
        """deliver an Interest named t; returns list of (tag, name) handler invocations"""
        del self.log[:]
        if self.api == 'dispatcher':
            r = self.d.dispatch(comps(t), enc.InterestParam(), None)
            for q in getattr(self, 'queues', []):
                del q[:]
            res = list(self.log)
            if bool(r) != bool(res):
                res.append(('return-value-mismatch', r))
            return res
        wire = interest_wire(t)
        # the forwarder may hand an Interest over bare or in a link-layer envelope (numbered, with or without a PIT token): same routing
        form = (len(t) + len(self.log_forms)) % 3
        self.log_forms.append(form)
        if form == 1:
            wire = ts.tlv(0x64, ts.tlv(0x51, bytes(8)) + ts.tlv(0x50, wire))
        elif form == 2:
            wire = ts.tlv(0x64, ts.tlv(0x51, b'\x00' * 7 + b'\x09') + ts.tlv(0x62, b'\xaa\xbb') + ts.tlv(0x50, wire))
        self.face.deliver(wire)
        self.loop.drain()
        for q in getattr(self, 'queues', []):
            del q[:]            # the application works its queues off
        return list(self.log)

    def failures(self):
        if self.loop is None:
            return []
        return self.loop.task_failures() + [{'exception': h.get('exception'), 'where': h.get('where'), 'task': 'loop'}
                                            for h in self.loop.handler_reports]


def check_table(tb: Table, attached: dict, probes, where, viol, acc):
    """attached: {prefix tuple: tag}"""
    for t in probes:
        got = tb.probe(t)
        exp_p = ref_lookup(attached, t)
        exp = [] if exp_p is None else [(attached[exp_p], tuple(comps(t)))]
        acc.transitions += 1
        if got != exp:
            g = [x[0] for x in got]
            kind = 'none-called' if not got else ('wrong-handler' if len(got) == 1 else 'several-called')
            viol.append((f'C04|{tb.api}|{where}|{kind}',
                         f'Interest /{"/".join(t)} with attached {sorted("/" + "/".join(p) for p in attached)}: '
                         f'handlers called {g}, expected {[x[0] for x in exp]}'))
            return False
    for f in tb.failures():
        viol.append((f"C04|{tb.api}|{where}|task-error|{f['exception']}@{f['where']}", f'background error {f}'))
        return False
    return True


# -- lookup ---------------------------------------------------------------------------------------------
def subsets_quick():
    out = []
    for r in range(len(U2) + 1):
        out.extend(itertools.combinations(U2, r))
    seen = set(out)
    for r in range(0, 4):
        for s in itertools.combinations(U3, r):
            if s not in seen:
                out.append(s)
                seen.add(s)
    return out


def subset_by_index(i):
    return tuple(U3[k] for k in range(15) if i >> k & 1)


def run_lookup(api, subset, rot, probes, acc):
    viol = []
    tb = Table(api)
    try:
        attached = {}
        for k, p in enumerate(subset):
            try:
                tb.attach(p, rot + k, 'h' + '/'.join(p))
            except Exception as e:  # noqa
                viol.append((f'C04|{api}|lookup|attach-refused|{type(e).__name__}',
                             f'attaching a handler to the free prefix /{"/".join(p)} (already attached: '
                             f'{sorted("/" + "/".join(q) for q in attached)}) raised {e!r}'))
                return viol
            attached[p] = 'h' + '/'.join(p)
        check_table(tb, attached, probes, 'lookup', viol, acc)
    finally:
        tb.close()
    return viol


# -- histories ------------------------------------------------------------------------------------------
HP = [('a',), ('a', 'b'), ('a', 'b', 'c'), ('b',)]
OPS = [('A', i) for i in range(4)] + [('D', i) for i in range(4)]


def run_history(api, seq, acc):
    """seq: list of op indices"""
    viol = []
    tb = Table(api)
    try:
        attached = {}
        gen = 0
        for step, oi in enumerate(seq):
            op, pi = OPS[oi]
            p = HP[pi]
            rep = step + pi
            if op == 'A':
                gen += 1
                tag = f'g{gen}'
                try:
                    tb.attach(p, rep, tag, accept=p not in attached)     # a (to be refused) second attach brings a rejecting validator
                    if p in attached:
                        viol.append((f'C04|{api}|hist|duplicate-attach-accepted',
                                     f'second handler attached to occupied prefix /{"/".join(p)} without error (history {seq})'))
                        break
                    attached[p] = tag
                except ValueError:
                    if p not in attached:
                        viol.append((f'C04|{api}|hist|attach-refused', f'attach to free prefix raised ValueError (history {seq})'))
                        break
                except Exception as e:  # noqa
                    viol.append((f'C04|{api}|hist|attach-raises:{type(e).__name__}', f'{e!r} (history {seq})'))
                    break
            else:
                try:
                    tb.detach(p, rep)
                except Exception as e:  # noqa
                    if p in attached:
                        viol.append((f'C04|{api}|hist|detach-raises:{type(e).__name__}',
                                     f'detaching attached prefix raised {e!r} (history {seq})'))
                        break
                attached.pop(p, None)
            if not check_table(tb, attached, PROBES_H, f'hist', viol, acc):
                break
            if api != 'dispatcher':
                bad = False
                for t in PROBES_S:
                    got = tb.probe_signed(t)
                    exp_p = ref_lookup(attached, t)
                    exp = [] if exp_p is None else [('validator', attached[exp_p]), (attached[exp_p],)]
                    acc.transitions += 1
                    if got != exp:
                        viol.append((f'C04|{api}|hist|signed-interest|{"validator-not-the-attached-one" if got and exp else "dispatch-differs"}',
                                     f'signed Interest /{"/".join(t)} with attached {sorted("/" + "/".join(q) for q in attached)}: '
                                     f'observed {got}, expected {exp} (history {seq})'))
                        bad = True
                        break
                if bad:
                    break
    finally:
        tb.close()
    return viol


PROBES_S = [('a',), ('a', 'b'), ('a', 'b', 'c'), ('a', 'b', 'c', 'a'), ('b',), ('b', 'a'), ('c',)]
PROBES_H = [t for t in names_over('abc', 4) if t[:1] != ('c',)] + [('c',)]


# -- reply ----------------------------------------------------------------------------------------------
def reply_cases():
    for lifetime in (None, 0, 10, 4000):
        eff = 4000 if lifetime is None else lifetime
        for dt in sorted({0, max(eff - 1, 0), eff, eff + 1, eff + 50}):
            for nrep in (1, 2):
                for token in (None, 'aabb', ''):
                    yield {'lifetime': lifetime, 'dt': dt, 'nrep': nrep, 'token': token}
    for token in (None, 'aabb'):
        yield {'lifetime': 4000, 'dt': 5, 'nrep': 1, 'token': token, 'down': True}


def run_two_apps(api, rot):
    """two application objects in one process (each with its own face): what is attached to one is unknown to the other"""
    viol = []
    acc = Acc()
    t1 = Table(api)
    try:
        t2 = Table(api, share=t1)
        try:
            a1, a2 = {}, {}
            for k, p in enumerate([('a',), ('a', 'b')]):
                t1.attach(p, rot + k, 'one:' + '/'.join(p))
                a1[p] = 'one:' + '/'.join(p)
            for k, p in enumerate([('a', 'b', 'c'), ('b',)]):
                t2.attach(p, rot + k, 'two:' + '/'.join(p))
                a2[p] = 'two:' + '/'.join(p)
            # a prefix occupied in one application is free in the other
            try:
                t2.attach(('a',), rot, 'two:a')
                a2[('a',)] = 'two:a'
            except Exception as e:  # noqa
                viol.append((f'C04|{api}|two-apps|attach-refused|{type(e).__name__}', f'/a is attached in the first application only, the second refused it: {e!r}'))
            check_table(t1, a1, PROBES4, 'two-apps-first', viol, acc)
            if not viol:
                check_table(t2, a2, PROBES4, 'two-apps-second', viol, acc)
            if not viol:
                t1.detach(('a',), rot)
                del a1[('a',)]
                check_table(t1, a1, PROBES4, 'two-apps-first-after-detach', viol, acc)
                check_table(t2, a2, PROBES4, 'two-apps-second-after-detach', viol, acc)
        finally:
            t2.close()
    except Exception as e:  # noqa
        viol.append((f'C04|{api}|two-apps|raises:{type(e).__name__}', repr(e)))
    finally:
        t1.close()
    return viol


def run_route_alias(api):
    """routes declared before connecting with one list object that the application goes on changing: each route is the name
    the list held when the route was declared"""
    viol = []
    acc = Acc()
    tb = Table(api)
    try:
        tb.app.shutdown()
        tb.loop.settle()
        log = tb.log
        nm = [bytearray(b'\x08\x01a')]
        declared = {}
        for extra, tag in ((None, 'ra'), (bytearray(b'\x08\x01b'), 'rab'), (bytearray(b'\x08\x01c'), 'rabc')):
            if extra is not None:
                nm.append(extra)
            tb.app.route(nm)(tb._handler(tag))
            declared[tuple(bytes(c[2:]).decode() for c in nm)] = tag
        nm.clear()
        nm.append(bytearray(b'\x08\x01z'))
        tb.main = tb.loop.create_task(tb.app.main_loop())
        tb.loop.settle()
        check_table(tb, declared, PROBES4, 'route-alias', viol, acc)
    except Exception as e:  # noqa
        viol.append((f'C04|{api}|route-alias|raises:{type(e).__name__}', repr(e)))
    finally:
        tb.close()
    return viol


UNREG_ANSWERS = ('ok', 'silence', 'nack', 'garbage', '403')


def run_unregister(answer):
    """legacy: a prefix with a handler is unregistered; whatever the forwarder makes of the command (confirms, stays silent, Nacks,
    answers rubbish or refuses), the handler is no longer the application's afterwards"""
    viol = []
    acc = Acc()
    tb = Table('legacy')
    try:
        attached = {}
        for k, pth in enumerate([('a',), ('a', 'b'), ('b',)]):
            tb.attach(pth, k, 'h' + '/'.join(pth))
            attached[pth] = 'h' + '/'.join(pth)

        def on_send(wire):
            if wire[0] != 5:
                return
            if answer == 'ok' or answer == '403':
                code = 200 if answer == 'ok' else 403
                body = ts.tlv(0x65, ts.tlv(0x66, ts.uint(code)) + ts.tlv(0x67, b'x'))
                r = ns.read_interest(wire)
                tb.face.deliver(bytes(enc.make_data([bytes(c) for c in r['name']], enc.MetaInfo(), body)))
            elif answer == 'nack':
                tb.face.deliver(bytes(enc.make_network_nack(wire, 150)))
            elif answer == 'garbage':
                r = ns.read_interest(wire)
                tb.face.deliver(bytes(enc.make_data([bytes(c) for c in r['name']], enc.MetaInfo(), b'\x65\x7f\x00')))
        tb.face.on_send = on_send
        out = {}

        async def go():
            try:
                out['r'] = await tb.app.unregister(as_repr(('a', 'b'), 0))
            except BaseException as e:  # noqa
                out['r'] = f'raises:{type(e).__name__}'
        t = tb.loop.create_task(go())
        tb.loop.settle()
        if not t.done():
            viol.append((f'C04|legacy|unregister|{answer}|never-returns', 'unregister did not finish'))
        del attached[('a', 'b')]
        check_table(tb, attached, PROBES4, f'unregister-{answer}', viol, acc)
    except Exception as e:  # noqa
        viol.append((f'C04|legacy|unregister|{answer}|raises:{type(e).__name__}', repr(e)))
    finally:
        tb.close()
    return viol


def run_route_return(api):
    """a route declared through the decorator while the application is connected: the decorator hands the function back, so the same
    function can be declared for a second prefix (stacked decorators) or attached elsewhere by name"""
    viol = []
    acc = Acc()
    tb = Table(api)
    try:
        h = tb._handler('shared')
        got = tb.app.route(as_repr(('a',), 0))(h)
        tb.loop.settle()
        if got is not h:
            viol.append((f'C04|{api}|route-return|decorator-returns:{type(got).__name__}', 'app.route(...)(f) did not return f while connected'))
        got2 = tb.app.route(as_repr(('b', 'c'), 1))(got if got is not None else h)
        tb.loop.settle()
        if api == 'v2':
            tb.app.attach_handler(as_repr(('c',), 0), got2 if got2 is not None else h)
        else:
            tb.app.set_interest_filter(as_repr(('c',), 0), got2 if got2 is not None else h)
        check_table(tb, {('a',): 'shared', ('b', 'c'): 'shared', ('c',): 'shared'}, PROBES4, 'route-return', viol, acc)
    except Exception as e:  # noqa
        viol.append((f'C04|{api}|route-return|raises:{type(e).__name__}', repr(e)))
    finally:
        tb.close()
    return viol


def run_register_none():
    """legacy: register(name, None) only tells the forwarder; it gives the prefix no handler, so a handler at a shorter prefix goes on
    receiving the Interests under it"""
    viol = []
    acc = Acc()
    tb = Table('legacy')
    try:
        attached = {}
        for k, pth in enumerate([('a',), ('b',)]):
            tb.attach(pth, k, 'h' + '/'.join(pth))
            attached[pth] = 'h' + '/'.join(pth)

        def on_send(wire):
            if wire[0] == 5:
                r = ns.read_interest(wire)
                body = ts.tlv(0x65, ts.tlv(0x66, ts.uint(200)) + ts.tlv(0x67, b'OK'))
                tb.face.deliver(bytes(enc.make_data([bytes(c) for c in r['name']], enc.MetaInfo(), body)))
        tb.face.on_send = on_send
        out = {}

        async def go():
            try:
                out['r'] = await tb.app.register(as_repr(('a', 'b'), 0), None)
            except BaseException as e:  # noqa
                out['r'] = f'raises:{type(e).__name__}'
        tb.loop.create_task(go())
        tb.loop.settle()
        tb.face.on_send = None
        if out.get('r') is not True:
            viol.append((f"C04|legacy|register-none|result={out.get('r')}", 'register(name, None) confirmed by the forwarder did not return True'))
        check_table(tb, attached, PROBES4, 'register-none', viol, acc)
    except Exception as e:  # noqa
        viol.append((f'C04|legacy|register-none|raises:{type(e).__name__}', repr(e)))
    finally:
        tb.close()
    return viol


def run_reconnect(rot):
    """appv2: handlers stay attached over the end of one connection and the start of the next one (same application object)"""
    viol = []
    acc = Acc()
    tb = Table('v2')
    try:
        attached = {}
        for k, p in enumerate([('a',), ('a', 'b'), ('b',)]):
            tb.attach(p, rot + k, 'h' + '/'.join(p))
            attached[p] = 'h' + '/'.join(p)
        check_table(tb, attached, PROBES4, 'reconnect-before', viol, acc)
        for session in (1, 2):
            tb.app.shutdown()
            tb.loop.settle()
            tb.main = tb.loop.create_task(tb.app.main_loop())
            tb.loop.drain()
            if not viol:
                check_table(tb, attached, PROBES4, f'reconnect-session-{session}', viol, acc)
            # an occupied prefix is still occupied
            try:
                tb.attach(('a',), rot, 'intruder')
                viol.append(('C04|v2|reconnect|duplicate-attach-accepted', f'second handler accepted on /a in session {session}'))
                break
            except ValueError:
                pass
            if session == 1:
                tb.detach(('b',), rot)
                del attached[('b',)]
    except Exception as e:  # noqa
        viol.append((f'C04|v2|reconnect|raises:{type(e).__name__}', repr(e)))
    finally:
        tb.close()
    return viol


def run_reply(case):
    viol = []
    loop = VLoop()
    with loop, owned_env(loop):
        face = HFace()
        app = FRONTENDS['v2'].make_app(face)
        main = loop.create_task(app.main_loop())
        loop.drain()
        kept = []
        app.attach_handler('/p', lambda name, ap, reply, ctx: kept.append((reply, ctx)))
        lt = case['lifetime']
        wire = bytes(enc.make_interest('/p/x', enc.InterestParam(nonce=5, lifetime=lt)))
        token = case.get('token')
        if token is not None:
            # the Interest arrives inside a link-layer envelope carrying a PIT token: the reply carries it back
            wire = ts.tlv(0x64, ts.tlv(0x62, bytes.fromhex(token)) + ts.tlv(0x50, wire))
        face.deliver(wire)
        loop.drain()
        if len(kept) != 1:
            return [('C04|v2|reply|handler-not-called', f'{case}')], None
        reply, ctx = kept[0]
        eff = 4000 if lt is None else lt
        loop.advance_to_us(loop.us + case['dt'] * 1000)
        loop.drain()
        data = bytes(enc.make_data('/p/x', enc.MetaInfo(), b'reply-content'))
        obs = []
        if case.get('down'):
            # the connection is gone when the handler gets round to replying: nothing can be transmitted, and the callback must
            # not claim otherwise (with or without PIT token)
            app.shutdown()
            loop.drain()
            before = len(face.sent)
            try:
                r = reply(data)
                if r:
                    viol.append((f'C04|v2|reply|success-on-closed-face|token={token is not None}',
                                 f'reply returned {r!r} although the face is down (nothing transmitted: {len(face.sent) == before}) in {case}'))
            except nt.NetworkError:
                pass
            except Exception as e:  # noqa
                viol.append((f'C04|v2|reply|raises:{type(e).__name__}', f'reply on a closed face raised {e!r} in {case}'))
            loop.settle()
            return viol, [('down', len(face.sent) - before)]
        for k in range(case['nrep']):
            before = len(face.sent)
            try:
                r = reply(data)
            except Exception as e:  # noqa
                viol.append((f'C04|v2|reply|raises:{type(e).__name__}', f'reply raised {e!r} in {case}'))
                break
            sent = face.sent[before:]
            obs.append((bool(r), len(sent)))
            written = len(sent) > 0
            if written and token is not None:
                try:
                    lp = ns.read_lp(sent[0])
                    if len(sent) != 1 or lp['fragment'] != data or lp['pit_token'] != bytes.fromhex(token):
                        viol.append(('C04|v2|reply|bytes-differ', f'reply with PIT token wrote something else than token + reply bytes in {case}'))
                except ts.Malformed as e:
                    viol.append(('C04|v2|reply|bytes-differ', f'reply envelope malformed ({e}) in {case}'))
            elif written and sent != [data]:
                viol.append(('C04|v2|reply|bytes-differ', f'reply wrote something else than the reply bytes in {case}'))
            if case['dt'] < eff and not written:
                viol.append(('C04|v2|reply|not-sent-in-time', f'reply at +{case["dt"]}ms (lifetime {lt}) was not transmitted'))
            if case['dt'] > eff and written:
                viol.append(('C04|v2|reply|sent-after-deadline', f'reply at +{case["dt"]}ms (lifetime {lt}) was transmitted'))
            if bool(r) != written:
                viol.append((f'C04|v2|reply|untruthful-return|returned={r!r}|written={written}',
                             f'reply returned {r!r} but bytes written = {written} in {case}'))
        if 'deadline' in ctx:
            pass
        app.shutdown()
        loop.settle()
        for f in loop.task_failures():
            viol.append((f"C04|v2|reply|task-error|{f['exception']}@{f['where']}", f'{f}'))
    return viol, obs


# -- plan / unit / replay -------------------------------------------------------------------------------
APIS = ['v2', 'legacy', 'dispatcher']


def plan(tier, seed):
    units = []
    if tier == 'quick':
        subs = subsets_quick()
        for api in APIS:
            for lo in range(0, len(subs), 60):
                units.append({'kind': 'lookupq', 'api': api, 'lo': lo, 'hi': min(len(subs), lo + 60)})
        depth = 4
    else:
        for api in APIS:
            step = 256 if api != 'dispatcher' else 2048
            for lo in range(0, 32768, step):
                units.append({'kind': 'lookup', 'api': api, 'lo': lo, 'hi': lo + step})
        depth = 5
    nseq = sum(8 ** d for d in range(1, depth + 1))
    for api in APIS:
        for first in range(8):
            for second in range(8):
                units.append({'kind': 'hist', 'api': api, 'first': first, 'second': second, 'depth': depth})
    units.append({'kind': 'reply'})
    return {
        'units': units,
        'rule': 'lookup: one case = (API, set of attached prefixes with rotating representations, Interest name); '
                'hist: one case = (API, attach/detach history, step) with the full lookup table compared after every step; '
                'reply: (lifetime, reply instant, repetitions). Non-trivial = at least two attached prefixes on one '
                'branch (nested) so that longest-prefix matters, or a history with a detach.',
        'bounds': {'prefix_universe': 'names of length 0..3 over {a,b} (15)', 'subsets': 'all 32768' if tier == 'thorough'
                   else 'all 128 subsets of the 7-name universe + all subsets of size <=3 of the 15-name universe',
                   'interest_names': 'length 0..4 over {a,b,c} (121)', 'history_depth': depth, 'histories': nseq * 3,
                   'apis': APIS},
        'assumptions': ['detaching a prefix that is not attached is outside the statement: any exception or none is '
                        'accepted, the table must be unchanged'],
    }


def histories(first, second, depth):
    yield [first]
    if depth >= 2:
        yield [first, second]
        for d in range(3, depth + 1):
            for tail in itertools.product(range(8), repeat=d - 2):
                yield [first, second] + list(tail)


def unit(arg):
    acc = Acc()
    acc.state_hashes = None
    kind = arg['kind']
    if kind in ('lookup', 'lookupq'):
        if kind == 'lookupq':
            subs = subsets_quick()[arg['lo']:arg['hi']]
        else:
            subs = [subset_by_index(i) for i in range(arg['lo'], arg['hi'])]
        for idx, s in enumerate(subs):
            rot = (arg['lo'] + idx) % 4
            reps = [rot] if len(s) > 2 else [0, 1, 2, 3]
            for r in reps:
                v = run_lookup(arg['api'], s, r, PROBES4, acc)
                acc.evaluations += len(PROBES4)
                acc.state_count += 1
                nested = any(a != b and b[:len(a)] == a for a in s for b in s)
                if nested:
                    acc.nontrivial += len(PROBES4)
                acc.outcome(f"{arg['api']}|lookup|n={len(s)}|{'ok' if not v else 'viol'}")
                acc.observe([arg['api'], s, r, [x[0] for x in v]])
                for sig, what in v:
                    acc.violation(sig, what, {'kind': 'lookup', 'api': arg['api'], 'subset': [list(p) for p in s], 'rot': r})
            if idx % 50 == 0:
                acc.sample({'api': arg['api'], 'attached': ['/' + '/'.join(p) for p in s], 'rot': rot, 'probes': len(PROBES4)})
    elif kind == 'hist':
        for seq in histories(arg['first'], arg['second'], arg['depth']):
            v = run_history(arg['api'], seq, acc)
            acc.evaluations += 1
            acc.state_count += 1
            if any(OPS[o][0] == 'D' for o in seq):
                acc.nontrivial += 1
            acc.outcome(f"{arg['api']}|hist|len={len(seq)}|{'ok' if not v else 'viol'}")
            acc.observe([arg['api'], seq, [x[0] for x in v]])
            for sig, what in v:
                acc.violation(sig, what, {'kind': 'hist', 'api': arg['api'], 'seq': seq})
        acc.sample({'api': arg['api'], 'history': [f'{OPS[o][0]} /{"/".join(HP[OPS[o][1]])}' for o in seq]})
    else:
        for api in APIS:
            for rot in range(3):
                v = run_two_apps(api, rot)
                acc.evaluations += 1
                acc.state_count += 1
                acc.nontrivial += 1
                acc.transitions += 4 * len(PROBES4)
                acc.outcome(f"two-apps|{api}|{'ok' if not v else 'viol'}")
                acc.observe(['two-apps', api, rot, [x[0] for x in v]])
                for sig, what in v:
                    acc.violation(sig, what, {'kind': 'two-apps', 'api': api, 'rot': rot})
        for api in ('v2', 'legacy'):
            v = run_route_alias(api)
            acc.evaluations += 1
            acc.state_count += 1
            acc.nontrivial += 1
            acc.transitions += len(PROBES4)
            acc.outcome(f"route-alias|{api}|{'ok' if not v else 'viol'}")
            acc.observe(['route-alias', api, [x[0] for x in v]])
            for sig, what in v:
                acc.violation(sig, what, {'kind': 'route-alias', 'api': api})
        for label, fn in (('route-return|v2', lambda: run_route_return('v2')), ('route-return|legacy', lambda: run_route_return('legacy')),
                          ('register-none', run_register_none)):
            v = fn()
            acc.evaluations += 1
            acc.state_count += 1
            acc.nontrivial += 1
            acc.transitions += len(PROBES4) + 2
            acc.outcome(f"{label}|{'ok' if not v else 'viol'}")
            acc.observe([label, [x[0] for x in v]])
            for sig, what in v:
                acc.violation(sig, what, {'kind': 'misc', 'label': label})
        for answer in UNREG_ANSWERS:
            v = run_unregister(answer)
            acc.evaluations += 1
            acc.state_count += 1
            acc.nontrivial += 1
            acc.transitions += len(PROBES4) + 1
            acc.outcome(f"unregister|{answer}|{'ok' if not v else 'viol'}")
            acc.observe(['unregister', answer, [x[0] for x in v]])
            for sig, what in v:
                acc.violation(sig, what, {'kind': 'unregister', 'answer': answer})
        for rot in range(5):
            v = run_reconnect(rot)
            acc.evaluations += 1
            acc.state_count += 1
            acc.nontrivial += 1
            acc.transitions += 3 * len(PROBES4)
            acc.outcome(f"reconnect|{'ok' if not v else 'viol'}")
            acc.observe(['reconnect', rot, [x[0] for x in v]])
            for sig, what in v:
                acc.violation(sig, what, {'kind': 'reconnect', 'rot': rot})
        for case in reply_cases():
            v, obs = run_reply(case)
            acc.evaluations += 1
            acc.state_count += 1
            acc.nontrivial += 1
            acc.transitions += case['nrep']
            acc.outcome(f'reply|{obs}')
            acc.observe([case, obs, [x[0] for x in v]])
            acc.sample({'reply_case': case, 'observed(return,packets)': obs})
            for sig, what in v:
                acc.violation(sig, what, {'kind': 'reply', 'case': case})
    return acc


def replay(case):
    acc = Acc()
    if case['kind'] == 'lookup':
        v = run_lookup(case['api'], tuple(tuple(p) for p in case['subset']), case['rot'], PROBES4, acc)
    elif case['kind'] == 'hist':
        v = run_history(case['api'], case['seq'], acc)
    elif case['kind'] == 'reconnect':
        v = run_reconnect(case['rot'])
    elif case['kind'] == 'route-alias':
        v = run_route_alias(case['api'])
    elif case['kind'] == 'unregister':
        v = run_unregister(case['answer'])
    elif case['kind'] == 'misc':
        v = {'route-return|v2': lambda: run_route_return('v2'), 'route-return|legacy': lambda: run_route_return('legacy'),
             'register-none': run_register_none}[case['label']]()
    elif case['kind'] == 'two-apps':
        v = run_two_apps(case['api'], case['rot'])
    else:
        v, _ = run_reply(case['case'])
    return [{'sig': s, 'what': w} for s, w in v]
