"""
C05 - nothing that requires validation reaches the application unvalidated.

consumer: complete product verdict (every ValidResult member and plain Python values) x validator latency
          (none, < lifetime, = lifetime, > lifetime) x front-end, with a second Interest on the same node that
          has its own accepting validator; all orders of Data / ticks, <= d deviations (E-sched, the C03 engine
          and reference PIT).  Additionally a validation failure must carry the packet and the verdict.
producer: Interest kind (plain / parameters / empty parameters / signed) x digest variant (correct, bit flipped,
          parameter byte changed, absent) x route validator (absent, each verdict, slow) x front-end; the handler
          must be called exactly when the statement says, and only after the validator returned.
"""
from __future__ import annotations

import asyncio

import ndn.encoding as enc
from ndn import types as nt
from ndn.security import DigestSha256Signer, HmacSha256Signer

from mc.core import Acc
from mc.vloop import VLoop
from mc.explore import execute, explore, sub_multiset_orderings
from mc.ndnenv import HFace, FRONTENDS, owned_env
from mc.ref import tlv_strict as ts
from mc.ref import ndn_strict as ns
from checks import c03

PROPERTY = 'C05'

V2_TOKENS = ['PASS', 'BYPASS', 'FAIL', 'TIMEOUT', 'SILENCE', 'None', 'True', 'False', '0', '1']
LEGACY_TOKENS = ['True', 'False', 'None', '0', '1', 'empty', 'text']
LATENCIES = [0, 5, 10, 15]       # lifetime is 10 ms


def consumer_scenarios():
    out = []
    for fe, toks in (('v2', V2_TOKENS), ('legacy', LEGACY_TOKENS)):
        for tok in toks:
            for lat in LATENCIES:
                name = f'V|{fe}|{tok}|{lat}'
                c03.SCENARIOS[name] = {
                    'interests': [{'name': '/a', 'cbp': False, 'lifetime': 10, 'vlat': lat, 'verdict': tok},
                                  {'name': '/a', 'cbp': True, 'lifetime': 10, 'vlat': 0, 'verdict': 'accept'}],
                    'packets': {'dA': {'data': '/a'}},
                    'prefix': ['x0', 'x1'],
                    'alphabet': ['dA', 't', 't', 't'],
                }
                out.append((name, fe, tok, lat))
    # legacy: the caller also asks for the raw packet
    for tok in LEGACY_TOKENS:
        for lat in (0, 5):
            name = f'R|legacy|{tok}|{lat}'
            c03.SCENARIOS[name] = {
                'interests': [{'name': '/a', 'cbp': False, 'lifetime': 10, 'vlat': lat, 'verdict': tok, 'raw': True},
                              {'name': '/a', 'cbp': True, 'lifetime': 10, 'vlat': 0, 'verdict': 'accept'}],
                'packets': {'dA': {'data': '/a'}},
                'prefix': ['x0', 'x1'],
                'alphabet': ['dA', 't', 't', 't'],
            }
            out.append((name, 'legacy', tok, lat))
    # an Interest that allows longer names, answered by a Data with a longer name: the verdict is about that packet (and its name)
    for fe, toks in (('v2', V2_TOKENS), ('legacy', LEGACY_TOKENS)):
        for tok in toks:
            for lat in (0, 5):
                name = f'P|{fe}|{tok}|{lat}'
                c03.SCENARIOS[name] = {
                    'interests': [{'name': '/a', 'cbp': True, 'lifetime': 10, 'vlat': lat, 'verdict': tok},
                                  {'name': '/a/b', 'cbp': False, 'lifetime': 10, 'vlat': 0, 'verdict': 'accept'}],
                    'packets': {'dA': {'data': '/a/b'}},
                    'prefix': ['x0', 'x1'],
                    'alphabet': ['dA', 't', 't', 't'],
                }
                out.append((name, fe, tok, lat))
    # the caller awaits the result only some time after expressing (v2: the deadline counts from the expression)
    for tok in ('PASS', 'FAIL'):
        for lat, delay in ((8, 4), (5, 4), (12, 2), (3, 9)):
            name = f'W|v2|{tok}|{lat}|{delay}'
            c03.SCENARIOS[name] = {
                # the second Interest never gets an answer: its timer makes the clock stop at the common deadline
                'interests': [{'name': '/a', 'cbp': False, 'lifetime': 10, 'vlat': lat, 'verdict': tok, 'await_delay': delay},
                              {'name': '/witness', 'cbp': False, 'lifetime': 10, 'vlat': 0, 'verdict': 'accept'}],
                'packets': {'dA': {'data': '/a'}},
                'prefix': ['x0', 'x1'],
                'alphabet': ['dA', 't', 't', 't'],
            }
            out.append((name, 'v2', tok, lat))
    return out


CONSUMER = consumer_scenarios()


def consumer_scripts(max_len, prefix=('x0', 'x1')):
    return [tuple(prefix) + t for t in sub_multiset_orderings(['dA', 't', 't', 't'], max_len) if 'dA' in t]


def judge_consumer(sname, fe, tok, run):
    viol = [(s.replace('C03|', 'C05|consumer|'), w) for s, w in c03.judge(sname, fe, run)]
    obs = run.obs
    # the failure must carry the verdict (v2: the ValidResult / value returned by the validator)
    fr = obs.get('fail_results', {}).get('0')
    if obs['outcomes'].get('0', '').startswith('invalid:') and fe == 'v2':
        want = repr(c03.verdict_value(tok, fe))
        if fr != want:
            viol.append((f'C05|consumer|v2|failure-verdict|carried={fr}|returned={want}',
                         f'ValidationFailure.result is {fr} but the validator returned {want}'))
    if obs['outcomes'].get('0', '') == 'invalid:?':
        viol.append((f'C05|consumer|{fe}|failure-without-packet', 'ValidationFailure does not carry the name/content of the packet'))
    return viol


# -- producer ---------------------------------------------------------------------------------------------
KINDS = ['plain', 'params', 'params-empty', 'signed-digest', 'signed-digest-noparam', 'signed-hmac', 'signed-null', 'signed-ed25519', 'siginfo-only']
DIGESTS = ['ok', 'flip', 'flip-param', 'absent', 'long']


def make_incoming(kind, digest):
    ip = enc.InterestParam(nonce=9, lifetime=4000)
    if kind == 'plain':
        return bytes(enc.make_interest('/p/x', ip))
    if kind == 'params':
        w = enc.make_interest('/p/x', ip, b'abc')
    elif kind == 'params-empty':
        w = enc.make_interest('/p/x', ip, b'')
    elif kind == 'signed-digest':
        w = enc.make_interest('/p/x', ip, b'abc', DigestSha256Signer(for_interest=True))
    elif kind == 'signed-digest-noparam':
        w = enc.make_interest('/p/x', ip, None, DigestSha256Signer(for_interest=True))
    elif kind == 'signed-hmac':
        w = enc.make_interest('/p/x', ip, b'abc', HmacSha256Signer('/k', b'key'))
    elif kind == 'signed-null':
        # signature type 200 with an empty value (what NullSigner writes): a signed Interest like any other, the validator decides
        from ndn.security import NullSigner
        w = enc.make_interest('/p/x', ip, b'abc', NullSigner())
    elif kind == 'signed-ed25519':
        from ndn.security import Ed25519Signer
        from mc.seams import key_der
        w = enc.make_interest('/p/x', ip, b'abc', Ed25519Signer('/k/ed/KEY/1', key_der('ed25519_0')))
    elif kind == 'signed-no-appparam':
        # a signed Interest from which the ApplicationParameters element was cut out (lengths adjusted): the digest component in the
        # name cannot be right for what is left
        w0 = bytes(enc.make_interest('/p/x', ip, b'abc', DigestSha256Signer(for_interest=True)))
        top = ts.read_single(w0)
        return ts.tlv(5, b''.join(c.wire for c in top.children() if c.typ != 0x24))
    elif kind == 'siginfo-only':
        # InterestSignatureInfo present, InterestSignatureValue missing; the parameters digest is correct for what is there
        w0 = bytes(enc.make_interest('/p/x', ip, b'abc', DigestSha256Signer(for_interest=True)))
        top = ts.read_single(w0)
        ch = top.children()
        name_el = ch[0]
        app_el = [c for c in ch if c.typ == 0x24][0]
        tail = b''.join(c.wire for c in ch if c.start >= app_el.start and c.typ != 0x2e)
        import hashlib
        dg = hashlib.sha256(tail).digest()
        newname = ts.tlv(7, b''.join(c.wire if c.typ != 2 else ts.tlv(2, dg) for c in name_el.children()))
        w = ts.tlv(5, newname + w0[name_el.end:app_el.start] + tail)
    w = bytearray(w)
    if digest == 'ok':
        return bytes(w)
    top = ts.read_single(bytes(w))
    ch = top.children()
    name_el = ch[0]
    comps = name_el.children()
    dcomp = [c for c in comps if c.typ == 2][0]
    if digest == 'flip':
        w[dcomp.vstart + 5] ^= 0x01
        return bytes(w)
    if digest == 'flip-param':
        app = [c for c in ch if c.typ == 0x24][0]
        if app.length == 0:
            # grow the empty ApplicationParameters by one byte: rebuild
            rest = bytes(w[name_el.end:app.start]) + ts.tlv(0x24, b'\x00') + bytes(w[app.end:top.end])
            return ts.tlv(5, bytes(w[name_el.start:name_el.end]) + rest)
        w[app.vstart] ^= 0x01
        return bytes(w)
    if digest == 'long':
        # the right digest followed by one more octet: not a digest component any more
        newname = ts.tlv(7, b''.join(c.wire if c.typ != 2 else ts.tlv(2, bytes(w[c.vstart:c.end]) + b'\x00') for c in comps))
        return ts.tlv(5, newname + bytes(w[name_el.end:top.end]))
    if digest == 'absent':
        newname = ts.tlv(7, b''.join(c.wire for c in comps if c.typ != 2))
        return ts.tlv(5, newname + bytes(w[name_el.end:top.end]))
    raise ValueError(digest)


def producer_cases():
    for fe, toks in (('v2', V2_TOKENS), ('legacy', LEGACY_TOKENS)):
        for kind in KINDS:
            for digest in (DIGESTS if kind != 'plain' else ['ok']):
                for val in ['none'] + toks:
                    for vlat in ((0, 5) if val != 'none' else (0,)):
                        yield {'fe': fe, 'kind': kind, 'digest': digest, 'validator': val, 'vlat': vlat}
        # legacy default validator versus a broken signature value
    # a second attach on the occupied prefix is refused; the validator it brought must not replace the one in force
    for fe, acc_tok, rej_tok in (('v2', 'PASS', 'FAIL'), ('legacy', 'True', 'False')):
        for kind in ('params', 'signed-digest'):
            for first, second in ((acc_tok, rej_tok), (rej_tok, acc_tok)):
                yield {'fe': fe, 'kind': kind, 'digest': 'ok', 'validator': first, 'vlat': 0, 'dup_validator': second}
    # legacy: the validator in force for a route without one of its own is app.int_validator, whenever it was assigned
    for when in ('before', 'after'):
        for kind in ('plain', 'params', 'signed-digest', 'signed-hmac', 'siginfo-only'):
            for val in LEGACY_TOKENS:
                yield {'fe': 'legacy', 'kind': kind, 'digest': 'ok', 'validator': val, 'vlat': 0, 'app_validator': when}
    for fe, toks in (('v2', ['PASS', 'FAIL', 'none']), ('legacy', ['True', 'False', 'none'])):
        for kind in ('plain', 'params', 'signed-digest', 'signed-hmac'):
            for val in toks:
                yield {'fe': fe, 'kind': kind, 'digest': 'ok', 'validator': val, 'vlat': 0, 'attach': 'route-running'}
    for fe, acc_tok in (('v2', 'PASS'), ('legacy', 'True')):
        for kind in ('params', 'signed-digest'):
            for mid in ('more-specific', 'more-specific-novalidator', 'replaced'):
                yield {'fe': fe, 'kind': kind, 'digest': 'ok', 'validator': acc_tok, 'vlat': 5, 'mid': mid}
    for fe, toks in (('v2', ['PASS', 'FAIL', 'none']), ('legacy', ['True', 'False', 'none'])):
        for val in toks:
            yield {'fe': fe, 'kind': 'signed-no-appparam', 'digest': 'stale', 'validator': val, 'vlat': 0}
    # a validator that does not answer but raises (its own time limit expired, it was cancelled): that is no acceptance
    for fe in ('v2', 'legacy'):
        for kind in ('params', 'signed-digest', 'signed-hmac'):
            for vlat in (0, 5):
                for exc in ('raise:TimeoutError', 'raise:CancelledError', 'raise:ValueError'):
                    yield {'fe': fe, 'kind': kind, 'digest': 'ok', 'validator': exc, 'vlat': vlat}
    yield {'fe': 'legacy', 'kind': 'signed-digest', 'digest': 'ok', 'validator': 'none', 'vlat': 0, 'break_sig': True}
    yield {'fe': 'v2', 'kind': 'signed-digest', 'digest': 'ok', 'validator': 'PASS', 'vlat': 0, 'break_sig': True}


def run_producer(case):
    fe = case['fe']
    viol = []
    loop = VLoop()
    log = []
    with loop, owned_env(loop):
        face = HFace()
        app = FRONTENDS[fe].make_app(face)
        loop.create_task(app.main_loop())
        loop.drain()
        wire = make_incoming(case['kind'], case['digest'])
        if case.get('break_sig'):
            r = ns.read_interest(wire)
            # flip a bit inside the signature value (last 32 bytes of the packet): digest of parameters must be redone
            w = bytearray(wire)
            w[-1] ^= 1
            top = ts.read_single(bytes(w))
            ch = top.children()
            app_el = [c for c in ch if c.typ == 0x24][0]
            import hashlib
            dg = hashlib.sha256(bytes(w[app_el.start:top.end])).digest()
            name_el = ch[0]
            comps = [c.wire if c.typ != 2 else ts.tlv(2, dg) for c in name_el.children()]
            wire = ts.tlv(5, ts.tlv(7, b''.join(comps)) + bytes(w[name_el.end:top.end]))
        tok = case['validator']
        validator = None
        if tok.startswith('raise:'):
            exc_cls = {'TimeoutError': TimeoutError, 'CancelledError': asyncio.CancelledError, 'ValueError': ValueError}[tok[6:]]

            async def raising(*a):
                log.append(('vstart', loop.us))
                if case['vlat']:
                    await asyncio.sleep(case['vlat'] / 1000)
                raise exc_cls('the validator gives up')
            validator = (lambda name, sig, ctx: raising()) if fe == 'v2' else (lambda name, sig: raising())
        elif tok != 'none':
            value = c03.verdict_value(tok, fe)
            if fe == 'v2':
                async def validator(name, sig, ctx):
                    log.append(('vstart', loop.us))
                    if case['vlat']:
                        await asyncio.sleep(case['vlat'] / 1000)
                    log.append(('vdone', loop.us))
                    return value
            else:
                async def validator(name, sig):
                    log.append(('vstart', loop.us))
                    if case['vlat']:
                        await asyncio.sleep(case['vlat'] / 1000)
                    log.append(('vdone', loop.us))
                    return value
        when = case.get('app_validator')
        if when == 'before':
            app.int_validator = validator
        if case.get('attach') == 'route-running':
            # the route is declared through the decorator while the application is already connected
            if fe == 'v2':
                app.route('/p', validator)(lambda name, ap, reply, ctx: log.append(('handler', loop.us)))
            else:
                app.route('/p', validator)(lambda name, param, ap: log.append(('handler', loop.us)))
            loop.drain()
        elif fe == 'v2':
            app.attach_handler('/p', lambda name, ap, reply, ctx: log.append(('handler', loop.us)), validator)
        else:
            app.set_interest_filter('/p', lambda name, param, ap: log.append(('handler', loop.us)), None if when else validator)
        if when == 'after':
            app.int_validator = validator
        if case.get('dup_validator'):
            v2val = c03.verdict_value(case['dup_validator'], fe)
            if fe == 'v2':
                async def other(name, sig, ctx):
                    log.append(('other-validator', loop.us))
                    return v2val
            else:
                async def other(name, sig):
                    log.append(('other-validator', loop.us))
                    return v2val
            try:
                if fe == 'v2':
                    app.attach_handler('/p', lambda name, ap, reply, ctx: log.append(('other-handler', loop.us)), other)
                else:
                    app.set_interest_filter('/p', lambda name, param, ap: log.append(('other-handler', loop.us)), other)
                viol.append((f'C05|producer|{fe}|duplicate-attach-accepted', f'{case}'))
            except ValueError:
                pass
        face.deliver(wire)
        mid = case.get('mid')
        if mid:
            # while the (slow) validator is still deciding, the application changes its handler table: a handler the Interest
            # was not validated for must not receive it
            loop.drain()
            rej = c03.verdict_value('FAIL' if fe == 'v2' else 'False', fe)
            if fe == 'v2':
                async def other(name, sig, ctx):
                    log.append(('other-validator', loop.us))
                    return rej
                oh = lambda name, ap, reply, ctx: log.append(('other-handler', loop.us))  # noqa
                if mid == 'more-specific':
                    app.attach_handler('/p/x', oh, other)
                elif mid == 'more-specific-novalidator':
                    app.attach_handler('/p/x', oh, None)
                else:
                    app.detach_handler('/p')
                    app.attach_handler('/p', oh, other)
            else:
                async def other(name, sig):
                    log.append(('other-validator', loop.us))
                    return rej
                oh = lambda name, param, ap: log.append(('other-handler', loop.us))  # noqa
                if mid.startswith('more-specific'):
                    app.set_interest_filter('/p/x', oh, other if mid == 'more-specific' else None)
                else:
                    app.unset_interest_filter('/p')
                    app.set_interest_filter('/p', oh, other)
        loop.settle()
        failures = loop.task_failures()
        app.shutdown()
        loop.settle()
    kinds = [e[0] for e in log]
    called = kinds.count('handler')
    consulted = 'vstart' in kinds
    plain = case['kind'] == 'plain'
    signed = case['kind'].startswith('signed') or case['kind'] == 'siginfo-only'
    soft = case['kind'] == 'siginfo-only'      # signature information without a value: dropping it outright is as good as rejecting it
    digest_ok = case['digest'] == 'ok'
    # expected
    if plain:
        exp_called = True
    elif not digest_ok:
        exp_called = False
    elif tok.startswith('raise:'):
        exp_called = fe == 'legacy' and not signed        # (the legacy front-end does not consult a validator for unsigned Interests)
    elif fe == 'v2':
        exp_called = tok != 'none' and c03.verdict_accepts(tok, 'v2')
    else:
        if not signed:
            exp_called = True
        elif tok == 'none' or not c03.LEGACY_VALUES[tok]:
            # `if validator:` / default int_validator = sha256_digest_checker
            if tok == 'none':
                exp_called = not case.get('break_sig')
            else:
                exp_called = False
        else:
            exp_called = True
    tag = f"{fe}|{case['kind']}|digest={case['digest']}|validator={tok}"
    if called > 1:
        viol.append((f'C05|producer|{fe}|handler-called-twice', f'{tag}: handler called {called} times'))
    elif bool(called) != exp_called and not (soft and not called):
        why = 'reached the handler' if called else 'was dropped'
        viol.append((f"C05|producer|{fe}|{case['kind']}|digest={case['digest']}|validator={'none' if tok == 'none' else ('raising' if tok.startswith('raise:') else ('accepting' if c03.verdict_accepts(tok, fe) else 'rejecting'))}|{'delivered' if called else 'dropped'}",
                     f'{tag}: Interest {why}; expected handler called = {exp_called}'))
    if case.get('mid'):
        # the handler table changed during validation: only the clause about the unvalidated handler is claimed
        viol = [v for v in viol if 'handler-called-twice' in v[0]]
        if 'other-handler' in kinds:
            viol.append((f"C05|producer|{fe}|handler-attached-during-validation-received-interest|{case['mid']}",
                         f'{tag}: a handler attached while the validator was deciding received the Interest although its own validator '
                         f'(rejecting / absent) never accepted it: {kinds}'))
    elif 'other-validator' in kinds or 'other-handler' in kinds:
        viol.append((f'C05|producer|{fe}|refused-attach-took-effect', f'{tag}: the validator / handler of a refused second attach was used: {kinds}'))
    if plain and consulted:
        viol.append((f'C05|producer|{fe}|plain-consulted-validator', f'{tag}: validator consulted for a plain Interest'))
    if called and consulted:
        if 'vdone' not in kinds or kinds.index('handler') < kinds.index('vdone'):
            viol.append((f'C05|producer|{fe}|handler-before-verdict', f'{tag}: handler ran before the validator returned: {log}'))
    if called and not plain and (fe == 'v2' or signed) and tok != 'none' and not consulted:
        viol.append((f'C05|producer|{fe}|validator-skipped', f'{tag}: handler called but validator never consulted'))
    for f in failures:
        if tok.startswith('raise:') and f['exception'] == tok[6:]:
            continue        # the validator's own exception ending the task that ran it is the application's business
        viol.append((f"C05|producer|{fe}|task-error|{f['exception']}@{f['where']}", f'{tag}: {f}'))
    return viol, (called, consulted)


# -- plan / unit / replay -----------------------------------------------------------------------------------
def plan(tier, seed):
    d = 2 if tier == 'quick' else 3
    ln = 4
    units = []
    for (sname, fe, tok, lat) in CONSUMER:
        units.append({'kind': 'consumer', 'sname': sname, 'fe': fe, 'tok': tok, 'lat': lat, 'd': d, 'len': ln})
    units.append({'kind': 'producer'})
    return {
        'units': units,
        'rule': 'consumer: execution = (front-end, verdict, validator latency, order of Data/ticks, deviation placement); '
                'producer: case = (front-end, Interest kind, digest variant, validator verdict, validator latency). '
                'Non-trivial = verdict other than plain accept/reject immediately, or digest variant other than ok.',
        'bounds': {'verdicts_v2': V2_TOKENS, 'verdicts_legacy': LEGACY_TOKENS, 'latencies_ms': LATENCIES, 'lifetime_ms': 10,
                   'deviation_bound': d, 'producer_kinds': KINDS, 'digest_variants': DIGESTS},
        'assumptions': ['legacy front-end validates after the wait ended (outside the deadline): the late-validator clause is '
                        'checked there in its weak form (never the payload unless accepted)',
                        'legacy front-end: a validator returning a ValidResult member is outside the alphabet (it documents bool)',
                        'an Interest carrying a signature but no ApplicationParameters is outside the alphabet'],
    }


def unit(arg):
    acc = Acc()
    if arg['kind'] == 'consumer':
        sname, fe, tok = arg['sname'], arg['fe'], arg['tok']
        factory = lambda loop, trace: c03.PitScenario(loop, trace, sname, fe)  # noqa
        for script in consumer_scripts(arg['len'], c03.SCENARIOS[sname]['prefix']):
            def on_run(run, script=script):
                acc.evaluations += 1
                acc.transitions += run.steps
                o = run.obs['outcomes']
                acc.observe([sname, list(script), run.choices, o])
                acc.outcome(f"consumer|{fe}|{tok}|lat={arg['lat']}|{c03.cls(o.get('0', '-'))}")
                acc.state((sname, tuple(script), tuple(sorted(o.items()))))
                if tok not in ('PASS', 'FAIL', 'True', 'False') or arg['lat']:
                    acc.nontrivial += 1
                for sig, what in judge_consumer(sname, fe, tok, run):
                    acc.violation(sig, what, {'kind': 'consumer', 'sname': sname, 'fe': fe, 'tok': tok,
                                              'script': list(script), 'choices': list(run.choices)})
                if acc.evaluations % 200 == 1:
                    acc.sample({'scenario': sname, 'script': list(script), 'choices': list(run.choices), 'outcomes': o})
            explore(factory, script, arg['d'], on_run)
        acc.max_dev_completed = arg['d']
    else:
        for case in producer_cases():
            v, o = run_producer(case)
            acc.evaluations += 1
            acc.transitions += 3
            acc.state(('producer', tuple(sorted(case.items())), o))
            acc.outcome(f"producer|{case['fe']}|called={o[0]}|consulted={o[1]}")
            if case['digest'] != 'ok' or case['validator'] not in ('none', 'PASS', 'True'):
                acc.nontrivial += 1
            acc.observe([case, o, [x[0] for x in v]])
            if acc.evaluations % 150 == 1:
                acc.sample({'producer_case': case, 'handler_calls': o[0], 'validator_consulted': o[1]})
            for sig, what in v:
                acc.violation(sig, what, {'kind': 'producer', 'case': case})
    return acc


def replay(case):
    if case['kind'] == 'consumer':
        factory = lambda loop, trace: c03.PitScenario(loop, trace, case['sname'], case['fe'])  # noqa
        run = execute(factory, tuple(case['script']), tuple(case['choices']))
        v = judge_consumer(case['sname'], case['fe'], case['tok'], run)
    else:
        v, _ = run_producer(case['case'])
    return [{'sig': s, 'what': w} for s, w in v]
