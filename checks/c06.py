"""
C06 - receive path: exact stream framing, and no failure on any delivered bytes.

framing   : real StreamFace.run on a real asyncio.StreamReader bound to the virtual loop; packet sequences
            (1-byte L, zero length, 3-byte L, 3-byte T, 5-byte L) cut into chunks in every way (all 2^(n-1)
            chunkings for short streams, all <=k cuts at every T/L byte for long ones), EOF at every offset,
            <= d deviations (next chunk fed before the reader task ran).  Oracle: reference framer.
robustness: every single-byte substitution / truncation / TLV-level edit of a corpus of valid packets, all byte
            strings of length <= 2 and all strings of length <= L over a 12-symbol alphabet, delivered as
            datagrams through the real UdpFace handler (type read from the bytes themselves; stream-style
            deliveries are the subset with consistent outer framing) into an application with pending
            Interests (exact, CanBePrefix, implicit digest) and handlers (with and without validator).
            Oracle: no exception out of the transport handler, no background task ends with an error, loop
            handler silent, every pending Interest still finishes with a legal outcome, the bystander Interest
            and the bystander handler still work afterwards.
"""
from __future__ import annotations

import asyncio
import hashlib
import itertools

import ndn.encoding as enc
from ndn import types as nt
from ndn.transport.stream_face import StreamFace
from ndn.transport.udp_face import UdpFace
from ndn.security import DigestSha256Signer
from ndn.app_support.security_v2 import self_sign
from ndn.security import Sha256WithEcdsaSigner

from mc.core import Acc
from mc.vloop import VLoop, tb_where
from mc.explore import execute, explore
from mc.ndnenv import FRONTENDS, owned_env, exc_class
from mc.seams import key_der, pub_der, owned_random, fixed_now
from mc.ref import tlv_strict as ts
from mc.ref import ndn_strict as ns

PROPERTY = 'C06'


# =========================================================================================================
# framing
# =========================================================================================================
class TFace(StreamFace):
    async def open(self):
        self.running = True

    def isLocalFace(self):
        return True


PK = {
    'p1': bytes.fromhex('0503aabbcc'),
    'p0': bytes.fromhex('0600'),
    'pT': bytes.fromhex('fd03200142'),                 # 3-byte type
    'pL': b'\x06\xfd\x00\xfd' + bytes(range(253)),       # 3-byte length
    'pX': b'\x64\xfe\x00\x01\x00\x00' + b'\x77' * 65536,  # 5-byte length
    'pY': b'\x06\xfe' + (70000).to_bytes(4, 'big') + bytes(i * 7 & 0xFF for i in range(70000)),   # larger than 64 KiB, not a multiple of it
    'pQ': bytes.fromhex('ff0000000000000007') + b'\x01\x09',  # 9-byte type, 1-byte length
    'pM': b'\x06\xfc' + bytes(range(252)),               # the largest one-byte length (252)
    'pm': b'\xfc\x01\x55',                               # the largest one-byte type (252)
}


def ref_frames(stream: bytes):
    """reference framer: complete packets contained in the stream, in order"""
    out = []
    off = 0
    n = len(stream)
    while True:
        try:
            t, ts_ = ts.read_num(stream, off, n, minimal=False)
            ln, ls = ts.read_num(stream, off + ts_, n, minimal=False)
        except ts.Malformed:
            break
        end = off + ts_ + ls + ln
        if end > n:
            break
        out.append((t, stream[off:end]))
        off = end
    return out


class FramingScenario:
    def __init__(self, loop, trace, stream, cuts, eof_at):
        self.loop, self.trace = loop, trace
        self.stream, self.cuts, self.eof_at = stream, cuts, eof_at
        self.got = []

    def setup(self):
        self.face = TFace()
        self.face.reader = asyncio.StreamReader(loop=self.loop)

        async def cb(typ, buf):
            self.got.append((typ, bytes(buf)))
        self.face.callback = cb
        self.face.running = True
        self.task = self.loop.create_task(self.face.run())
        self.loop.drain()

    def fire(self, ev):
        if ev == 'eof':
            self.face.reader.feed_eof()
        elif ev == 'reset':
            # the peer resets the connection instead of closing it: the stream ends just the same
            self.face.reader.set_exception(ConnectionResetError(104, 'Connection reset by peer'))
        else:
            lo, hi = ev
            self.face.reader.feed_data(self.stream[lo:hi])

    def finish(self):
        return {'got': self.got, 'running': self.face.running, 'task_done': self.task.done(),
                'task_exc': (type(self.task.exception()).__name__ if self.task.done() and not self.task.cancelled()
                             and self.task.exception() else None),
                'failures': self.loop.task_failures(), 'handler': list(self.loop.handler_reports)}


def framing_script(n, cuts, eof_at, end='eof'):
    pts = [0] + sorted(c for c in cuts if c < eof_at) + [eof_at]
    return tuple((pts[i], pts[i + 1]) for i in range(len(pts) - 1) if pts[i + 1] > pts[i]) + (end,)


def judge_framing(stream, eof_at, run, end='eof'):
    viol = []
    exp = ref_frames(stream[:eof_at])
    o = run.obs
    if end == 'reset' and o['got'] == exp[:len(o['got'])]:
        pass        # asyncio discards what it had buffered when the reset arrives: complete packets not yet read may be lost, nothing else
    elif o['got'] != exp:
        kind = 'missing' if len(o['got']) < len(exp) else ('extra' if len(o['got']) > len(exp) else 'different')
        viol.append((f'C06|framing|{kind}-packets', f'delivered {[(t, len(b)) for t, b in o["got"]]} expected {[(t, len(b)) for t, b in exp]}'))
    if o['running'] or not o['task_done']:
        viol.append(('C06|framing|not-shut-down-at-eof', 'face still running / run() still pending after EOF'))
    if o['task_exc']:
        viol.append((f"C06|framing|run-raises:{o['task_exc']}", 'StreamFace.run ended with an exception'))
    for f in o['failures']:
        viol.append((f"C06|framing|task-error|{f['exception']}@{f['where']}", str(f)))
    return viol


def interesting_positions(seq_names):
    """cut positions: every byte of every T/L number (+1 after), the last two bytes of each packet, boundaries"""
    pos = set()
    off = 0
    for nm in seq_names:
        p = PK[nm]
        t, ts_ = ts.read_num(p, 0, len(p), False)
        ln, ls = ts.read_num(p, ts_, len(p), False)
        hdr = ts_ + ls
        for k in range(0, min(hdr + 2, len(p)) + 1):
            pos.add(off + k)
        for k in (len(p) - 1, len(p)):
            pos.add(off + k)
        off += len(p)
    pos.discard(0)
    return sorted(pos)


def framing_cases(tier):
    small = ['p1', 'p0', 'pT', 'pQ']
    seqs = []
    for n in (1, 2, 3):
        for s in itertools.product(small, repeat=n):
            seqs.append(s)
    long_seqs = [('pL',), ('p1', 'pL'), ('pL', 'pT'), ('pL', 'pL'), ('p0', 'pL', 'p1'), ('pM',), ('pM', 'p1'), ('p1', 'pM', 'pL'),
                 ('pm', 'p1'), ('p0', 'pm', 'pM')]
    long_seqs += [('pY', 'p1'), ('p1', 'pY', 'pT', 'pL')]
    if tier == 'thorough':
        long_seqs += [('pX',), ('p1', 'pX', 'pT'), ('pY', 'pX', 'p1')]
    maxcuts = 2 if tier == 'quick' else 3
    for s in seqs:
        stream = b''.join(PK[x] for x in s)
        n = len(stream)
        if n <= 14:
            for mask in range(1 << (n - 1)):
                cuts = [i + 1 for i in range(n - 1) if mask >> i & 1]
                yield {'seq': list(s), 'cuts': cuts, 'eof': n}
        else:
            pos = [p for p in interesting_positions(s) if p < n]
            for k in range(0, maxcuts + 1):
                for cuts in itertools.combinations(pos, k):
                    yield {'seq': list(s), 'cuts': list(cuts), 'eof': n}
        # EOF at every offset, stream fed as a whole and byte by byte
        for e in range(0, n):
            yield {'seq': list(s), 'cuts': [], 'eof': e}
            if n <= 14:
                yield {'seq': list(s), 'cuts': list(range(1, e)), 'eof': e}
            if len(s) <= 2:
                yield {'seq': list(s), 'cuts': [], 'eof': e, 'end': 'reset'}
        if len(s) <= 2:
            yield {'seq': list(s), 'cuts': [], 'eof': n, 'end': 'reset'}
    for s in long_seqs:
        stream = b''.join(PK[x] for x in s)
        n = len(stream)
        pos = [p for p in interesting_positions(s) if p < n]
        for k in range(0, maxcuts + 1):
            for cuts in itertools.combinations(pos, k):
                yield {'seq': list(s), 'cuts': list(cuts), 'eof': n}
        for e in pos:
            yield {'seq': list(s), 'cuts': [], 'eof': e}
            yield {'seq': list(s), 'cuts': [p for p in pos if p < e][:3], 'eof': e}


def run_framing(case, d, acc=None):
    stream = b''.join(PK[x] for x in case['seq'])
    script = framing_script(len(stream), case['cuts'], case['eof'], case.get('end', 'eof'))
    factory = lambda loop, trace: FramingScenario(loop, trace, stream, case['cuts'], case['eof'])  # noqa
    viol = []

    def on_run(run):
        v = judge_framing(stream, case['eof'], run, case.get('end', 'eof'))
        if acc is not None:
            acc.evaluations += 1
            acc.transitions += run.steps
            acc.state((tuple(case['seq']), case['eof'], tuple(script), tuple(run.choices)))
        for sig, what in v:
            viol.append((sig, what, list(run.choices)))
    explore(factory, script, d, on_run)
    return viol


# =========================================================================================================
# robustness
# =========================================================================================================
ALPHA12 = [0x00, 0x01, 0x02, 0x05, 0x06, 0x07, 0x08, 0x15, 0xFD, 0xFE, 0xFF, 0x64]
SUBST_QUICK = [0x00, 0x01, 0x05, 0x06, 0x07, 0x08, 0x50, 0x64, 0x7F, 0xFD, 0xFE, 0xFF]


def build_corpus():
    c = {}
    ip = enc.InterestParam(nonce=3, lifetime=100)
    data = bytes(enc.make_data('/t/a', enc.MetaInfo(freshness_period=10), b'payload', DigestSha256Signer()))
    interest_t = bytes(enc.make_interest('/t/a', ip))
    c['data'] = data
    c['interest'] = bytes(enc.make_interest('/th/q', ip))
    c['interest-params'] = bytes(enc.make_interest('/tv/q', ip, b'pp'))
    c['interest-params-empty'] = bytes(enc.make_interest('/tv/q', ip, b''))
    c['interest-signed'] = bytes(enc.make_interest('/tv/q', ip, b'pp', DigestSha256Signer(for_interest=True)))
    c['lp-nack'] = bytes(enc.make_network_nack(interest_t, 150))
    # the Nack of an Interest that had been sent with a PIT token: both headers, in increasing type order
    c['lp-token-nack-t'] = ts.tlv(0x64, ts.tlv(0x62, b'\x01\x02') + ts.tlv(0x0320, ts.tlv(0x0321, b'\x96')) + ts.tlv(0x50, interest_t))
    lp = enc.ndnlp_v2.LpPacket()
    lp.lp_packet = enc.ndnlp_v2.LpPacketValue()
    lp.lp_packet.pit_token = b'\x01\x02\x03\x04'
    lp.lp_packet.fragment = c['interest']
    c['lp-token-interest'] = bytes(lp.encode())
    lp = enc.ndnlp_v2.LpPacket()
    lp.lp_packet = enc.ndnlp_v2.LpPacketValue()
    lp.lp_packet.congestion_mark = 1
    lp.lp_packet.fragment = data
    c['lp-data'] = bytes(lp.encode())
    c['data-u-longer'] = bytes(enc.make_data('/u/x', enc.MetaInfo(freshness_period=10), b'u', DigestSha256Signer()))
    # a Nack header on something that is not an Interest: not a Nack, and not a Data delivery either
    c['lp-nack-data'] = ts.tlv(0x64, ts.tlv(0x0320, ts.tlv(0x0321, b'\x96')) + ts.tlv(0x50, data))
    c['lp-no-fragment'] = ts.tlv(0x64, ts.tlv(0x62, b'\x09'))
    c['lp-empty'] = ts.tlv(0x64, b'')
    c['lp-empty-fragment'] = ts.tlv(0x64, ts.tlv(0x50, b''))
    c['lp-frag-fields'] = ts.tlv(0x64, ts.tlv(0x52, b'\x00') + ts.tlv(0x53, b'\x02') + ts.tlv(0x50, data[:20]))
    c['lp-nack-garbage'] = ts.tlv(0x64, ts.tlv(0x0320, ts.tlv(0x0321, b'\x96')) + ts.tlv(0x50, b'\x05\x03\x07\x01\x08'))
    c['lp-nack-no-fragment'] = ts.tlv(0x64, ts.tlv(0x0320, b''))
    c['unknown-type'] = ts.tlv(0x7e, b'abc')
    with owned_random('c06-cert'), fixed_now():
        signer = Sha256WithEcdsaSigner('/id/KEY/1', key_der('ec256_0'))
        _, cert = self_sign(enc.Name.from_str('/id/KEY/1'), pub_der('ec256_0'), signer)
    c['certificate'] = bytes(cert)
    c['nack-for-bystander-like'] = bytes(enc.make_network_nack(bytes(enc.make_interest('/t', ip)), 50))
    return c


_CORPUS = None


def corpus():
    global _CORPUS
    if _CORPUS is None:
        from mc.ndnenv import owned_env as _oe, FixedClock
        with _oe(clock=FixedClock(), seed=7):
            _CORPUS = build_corpus()
    return _CORPUS


def tlv_edits(wire: bytes):
    """structural single edits: delete / duplicate / swap adjacent elements at the two outer nesting levels,
    insert unknown elements, re-encode a length non-minimally, length +-1"""
    out = []
    try:
        top = ts.read_single(wire, minimal=False)
    except ts.Malformed:
        return out

    def rebuild(el, new_children_bytes):
        return ts.tlv(el.typ, new_children_bytes)

    def level(el, wrap):
        try:
            ch = el.children(minimal=False)
        except ts.Malformed:
            return
        for i in range(len(ch)):
            rest = [c.wire for c in ch]
            out.append(wrap(b''.join(rest[:i] + rest[i + 1:])))                       # delete
            out.append(wrap(b''.join(rest[:i] + [rest[i], rest[i]] + rest[i + 1:])))  # duplicate
            if i + 1 < len(ch):
                sw = list(rest)
                sw[i], sw[i + 1] = sw[i + 1], sw[i]
                out.append(wrap(b''.join(sw)))                                        # swap
            for unk in (ts.tlv(0x7c, b'u'), ts.tlv(0x7d, b'c'), ts.tlv(0x0a, b'\x01')):
                out.append(wrap(b''.join(rest[:i] + [unk] + rest[i:])))               # insert before
            # child length +-1 without touching the bytes, and non-minimal length
            c = ch[i]
            hdr_t = wire[c.start:c.start + (len(ts.num(c.typ)))]
            for delta in (-1, 1, 2):
                if c.length + delta >= 0:
                    out.append(wrap(b''.join(rest[:i] + [ts.num(c.typ) + ts.num(c.length + delta) + c.value] + rest[i + 1:])))
            out.append(wrap(b''.join(rest[:i] + [ts.num(c.typ) + b'\xfd' + c.length.to_bytes(2, 'big') + c.value] + rest[i + 1:])))
        out.append(wrap(b''.join(c.wire for c in ch) + ts.tlv(0x7c, b'')))                # append unknown

    level(top, lambda v: ts.tlv(top.typ, v))
    # second level: inside each child that parses as a sequence
    try:
        ch = top.children(minimal=False)
    except ts.Malformed:
        ch = []
    for i, c in enumerate(ch):
        def wrap(v, i=i, c=c):
            parts = [x.wire for x in ch]
            parts[i] = ts.tlv(c.typ, v)
            return ts.tlv(top.typ, b''.join(parts))
        if c.length:
            level(c, wrap)
    # outer length games
    out.append(ts.num(top.typ) + ts.num(top.length + 1) + top.value)
    out.append(ts.num(top.typ) + ts.num(max(top.length - 1, 0)) + top.value)
    out.append(wire + b'\x00')
    out.append(wire + wire)
    return out


_LONG = None


def long_packets():
    global _LONG
    if _LONG is None:
        from mc.ndnenv import owned_env as _oe, FixedClock
        with _oe(clock=FixedClock(), seed=9):
            _LONG = list(mutation_space('quick', 'long-build'))
    return _LONG


def mutation_space(tier, which):
    """deterministic generator of (label, bytes)"""
    cp = corpus()
    if which == 'subst':
        vals = SUBST_QUICK if tier == 'quick' else list(range(256))
        for name, w in cp.items():
            for pos in range(len(w)):
                for v in vals:
                    if w[pos] != v:
                        yield f'{name}@{pos}={v:02x}', w[:pos] + bytes([v]) + w[pos + 1:]
    elif which == 'trunc':
        for name, w in cp.items():
            yield f'{name}-asis', w
            for k in range(len(w)):
                yield f'{name}[:{k}]', w[:k]
            for k in range(1, min(len(w), 40)):
                # truncation with the outer length re-fixed (stream-style consistent framing)
                try:
                    top = ts.read_single(w, minimal=False)
                except ts.Malformed:
                    break
                if k <= top.length:
                    yield f'{name}-refixed-{k}', ts.tlv(top.typ, top.value[:top.length - k])
    elif which == 'edits':
        for name, w in cp.items():
            for k, m in enumerate(tlv_edits(w)):
                yield f'{name}-edit{k}', m
    elif which == 'glued':
        # a delivered unit is one packet: bytes after the outer element (garbage, or a second packet in the same datagram)
        for name, w in cp.items():
            for tlabel, tail in (('00', b'\x00'), ('data', cp['data']), ('interest', cp['interest']), ('ff' * 3, b'\xff\xff\xff')):
                yield f'{name}+{tlabel}', w + tail
    elif which == 'short':
        yield 'empty', b''
        for a in range(256):
            yield f'{a:02x}', bytes([a])
        for a in range(256):
            for b in range(256):
                yield f'{a:02x}{b:02x}', bytes([a, b])
    elif which == 'long':
        yield from long_packets()
    elif which == 'long-build':
        # well-formed packets whose names carry very long components of every kind of component type: nothing in the receive
        # path (matching, digest checks, rendering a name for a log line) may fail on them
        ip = enc.InterestParam(nonce=3, lifetime=100)
        for clabel, comp in (('seg-1787', ts.tlv(0x32, b'\x01' * 1787)), ('v-65535', ts.tlv(0x36, b'\xff' * 65535)), ('generic-65536', ts.tlv(8, b'g' * 65536)),
                             ('seq-9', ts.tlv(0x3a, b'\x01' * 9)), ('digest-typed-40', ts.tlv(1, b'\x00' * 40)), ('params-typed-3', ts.tlv(2, b'\x01\x02\x03')),
                             ('type-65535', ts.tlv(65535, b'x' * 300)), ('keyword-2000', ts.tlv(0x20, b'k' * 2000))):
            for prefix in ('th', 'tv', 't'):
                name = [ts.tlv(8, prefix.encode()), comp]
                builders = (('interest', lambda: enc.make_interest(name, ip)), ('interest-params', lambda: enc.make_interest(name, ip, b'pp')),
                            ('interest-signed', lambda: enc.make_interest(name, ip, b'pp', DigestSha256Signer(for_interest=True))),
                            ('data', lambda: enc.make_data(name, enc.MetaInfo(freshness_period=10), b'c', DigestSha256Signer())),
                            ('nack', lambda: enc.make_network_nack(bytes(enc.make_interest(name, ip)), 150)))
                for kind, build in builders:
                    try:
                        wire = bytes(build())
                    except ValueError:
                        # the encoder refuses this name for this packet kind: written by hand where that is simple
                        if kind != 'interest':
                            continue
                        wire = ts.tlv(5, ts.tlv(7, b''.join(name)) + ts.tlv(0x0a, b'\x00\x00\x00\x03') + ts.tlv(0x0c, b'\x64'))
                    yield f'{kind}|{prefix}|{clabel}', wire
    elif which == 'alpha':
        L = 4 if tier == 'quick' else 5
        for n in range(3, L + 1):
            for tup in itertools.product(ALPHA12, repeat=n):
                yield bytes(tup).hex(), bytes(tup)


try:
    from ndn.transport.ndn_dpdk import NdnDpdkUdpFace
    DPDK_HANDLER = NdnDpdkUdpFace.PacketHandler
except Exception:  # noqa  (optional dependency of that transport missing)
    DPDK_HANDLER = None


class Victim:
    """an application in a populated state: pending Interests and handlers"""

    def __init__(self, fe_name):
        self.fe = FRONTENDS[fe_name]
        self.loop = VLoop()
        self.loop.enter()
        self.env = owned_env(self.loop)
        self.env.__enter__()
        self.face = UdpFace('127.0.0.1', 6363)
        self.app = self.fe.make_app(self.face)
        self.main = self.loop.create_task(self.app.main_loop())
        self.loop.drain()
        self.handled = []
        self.outcomes = {}
        cp = corpus()
        dsha = hashlib.sha256(cp['data']).digest()
        self.pend = {
            't-exact': ('/t/a', False, None), 't-prefix': ('/t', True, None), 't-digest': ('/t/a', False, dsha),
            'bystander': ('/bystander/long/name/x', False, None),
            # two Interests on one name, the one allowing longer names expressed first
            'u-prefix': ('/u', True, None), 'u-exact': ('/u', False, None),
        }
        if fe_name == 'v2':
            async def val(name, sig, ctx):
                return nt.ValidResult.PASS
            self.app.attach_handler('/th', lambda n, ap, reply, ctx: self.handled.append('th'))
            self.app.attach_handler('/tv', lambda n, ap, reply, ctx: self.handled.append('tv'), val)
            self.app.attach_handler('/hb/bystander', lambda n, ap, reply, ctx: self.handled.append('hb'))
        else:
            async def val(name, sig):
                return True
            self.app.set_interest_filter('/th', lambda n, p, ap: self.handled.append('th'))
            self.app.set_interest_filter('/tv', lambda n, p, ap: self.handled.append('tv'), val)
            self.app.set_interest_filter('/hb/bystander', lambda n, p, ap: self.handled.append('hb'))
        self.callers = {}
        for key, (uri, cbp, dg) in self.pend.items():
            self.callers[key] = self.loop.create_task(self._caller(key, uri, cbp, dg))
        self.loop.drain()

    async def _caller(self, key, uri, cbp, dg):
        name = enc.Name.from_str(uri)
        if dg is not None:
            name = name + [enc.Component.from_bytes(dg, enc.Component.TYPE_IMPLICIT_SHA256)]
        try:
            res = await self.fe.express(self.app, name, lifetime=50, can_be_prefix=cbp, nonce=77)
            n, c = self.fe.result(res)
            self.outcomes[key] = 'data:' + enc.Name.to_str(n)
        except BaseException as e:  # noqa
            o = exc_class(e)
            if o.startswith('error:'):
                o += '@' + tb_where(e)
            self.outcomes[key] = o

    def close(self):
        try:
            self.env.__exit__(None, None, None)
        finally:
            self.loop.__exit__(None, None, None)


def legitimate_completions(blob, v):
    """{pending key: 'data' | 'nack'} this delivered unit may legitimately cause; None = no claim (contested zone / the known
    over-tolerance of nested lengths, which is C07's finding)"""
    from checks import c07

    def no_claim(res):
        return (res[0] == 'reject' and res[1] == 'overrun|in=model') or (res[0] == 'ok' and res[2])
    inner, nack = blob, None
    if blob[:1] == b'\x64':
        r = c07.ref_decode('lp', blob)
        if no_claim(r):
            return None
        if r[0] == 'reject':
            return {}
        inner, nack = r[1]['fragment'], r[1]['nack']
        if inner is None:
            return {}
    names = {}
    for key, (uri, cbp, dg) in v.pend.items():
        comps = [bytes(c) for c in enc.Name.from_str(uri)]
        names[key] = (comps, cbp, dg)
    out = {}
    if nack is not None:
        ri = c07.ref_decode('interest', inner)
        if no_claim(ri):
            return None
        if ri[0] == 'reject':
            return {}
        nm = [bytes(c) for c in ri[1]['name']]
        for key, (comps, cbp, dg) in names.items():
            full = comps + ([ts.tlv(1, dg)] if dg is not None else [])
            if nm == full:
                out[key] = 'nack'
        return out
    if inner[:1] != b'\x06':
        return {}
    rd = c07.ref_decode('data', inner)
    if no_claim(rd):
        return None
    if rd[0] == 'reject':
        return {}
    nm = [bytes(c) for c in rd[1]['name']]
    for key, (comps, cbp, dg) in names.items():
        if dg is not None:
            if nm == comps and hashlib.sha256(inner).digest() == dg:
                out[key] = 'data'
        elif nm == comps or (cbp and nm[:len(comps)] == comps):
            out[key] = 'data'
    return out


def run_robust(fe_name, blob: bytes):
    """returns (violations, summary)"""
    viol = []
    v = Victim(fe_name)
    try:
        loop = v.loop
        nsent0 = len(loop.datagram_transports[0].sent)
        try:
            v.face.handler.datagram_received(blob, ('127.0.0.1', 6363))
        except Exception as e:  # noqa
            viol.append((f'C06|robust|{fe_name}|transport-handler-raises|{type(e).__name__}@{tb_where(e)}',
                         f'UdpFace datagram handler raised {type(e).__name__} on {blob[:24].hex()}... (len {len(blob)})'))
        loop.drain()
        # the other shipped datagram transport (NDN-DPDK) reads the type from the bytes in the same way
        if DPDK_HANDLER is not None:
            seen = []

            async def dcb(typ, data):
                seen.append(typ)
            try:
                DPDK_HANDLER(dcb, loop.create_future()).datagram_received(blob, ('127.0.0.1', 6363))
            except Exception as e:  # noqa
                viol.append((f'C06|robust|{fe_name}|transport-handler-raises|dpdk|{type(e).__name__}@{tb_where(e)}',
                             f'NdnDpdkUdpFace datagram handler raised {type(e).__name__} on {blob[:24].hex()}... (len {len(blob)})'))
            loop.drain()
        # a handler may only see a parameterised / signed Interest whose parameters digest is right
        if v.handled:
            try:
                inner = blob
                if blob[:1] == b'\x64':
                    inner = ns.read_lp(blob)['fragment'] or b''
                ri = ns.read_interest(inner)
                needs = ri['app'] is not None or ri['sig_info'] is not None
                good = ri['digest_cover'] is not None and ri['digest_value'] == hashlib.sha256(ri['digest_cover']).digest()
                if needs and not good:
                    viol.append((f'C06|robust|{fe_name}|handler-called-for-interest-with-bad-digest',
                                 f'handler {v.handled} invoked for {blob[:24].hex()}... (len {len(blob)}) whose parameters digest is wrong or missing'))
            except ts.Malformed:
                pass
        # a pending Interest may be completed only by a packet that the reference reader accepts and that addresses it
        allowed = legitimate_completions(blob, v)
        if allowed is not None:
            for key in v.pend:
                o = v.outcomes.get(key)
                if o is not None and o.split(':')[0] in ('data', 'nack') and allowed.get(key) != o.split(':')[0]:
                    viol.append((f"C06|robust|{fe_name}|pending-interest-completed-by-illegitimate-packet|{o.split(':')[0]}",
                                 f'pending Interest {key} finished with {o} after {blob[:24].hex()}... (len {len(blob)}), which the reference '
                                 f'reader does not accept as a packet addressing it (legitimate: {allowed})'))
        mid_fail = loop.task_failures(ignore=set(v.callers.values()))
        for f in mid_fail:
            viol.append((f"C06|robust|{fe_name}|task-error|{f['exception']}@{f['where']}",
                         f"task {f['task']} ended with unhandled {f['exception']} at {f['where']} after delivering {blob[:24].hex()}... (len {len(blob)})"))
        for h in loop.handler_reports:
            viol.append((f"C06|robust|{fe_name}|loop-handler|{h.get('exception')}@{h.get('where')}", f'{h}'))
        # bystanders still work
        bdata = bytes(enc.make_data('/bystander/long/name/x', enc.MetaInfo(), b'bystander', DigestSha256Signer()))
        bint = bytes(enc.make_interest('/hb/bystander/q', enc.InterestParam(nonce=1, lifetime=100)))
        before_hb = v.handled.count('hb')
        v.face.handler.datagram_received(bdata, None)
        v.face.handler.datagram_received(bint, None)
        loop.drain()
        if v.outcomes.get('bystander') != 'data:/bystander/long/name/x':
            viol.append((f"C06|robust|{fe_name}|bystander-interest|{v.outcomes.get('bystander')}",
                         f"bystander Interest did not complete with its own Data after the bad packet: {v.outcomes.get('bystander')}"))
        if v.handled.count('hb') - before_hb != 1:
            viol.append((f'C06|robust|{fe_name}|bystander-handler', 'bystander handler did not fire exactly once for a good Interest'))
        # ... and so do the Interests on the name the bad packet was about, as far as it did not legitimately complete them: their
        # Data arrives now
        waiting = [k for k in ('t-exact', 't-prefix', 't-digest') if v.outcomes.get(k) is None]
        v.face.handler.datagram_received(corpus()['data'], None)
        loop.drain()
        for k in waiting:
            if not str(v.outcomes.get(k)).startswith('data:'):
                viol.append((f'C06|robust|{fe_name}|pending-interest-lost|{k}',
                             f'pending Interest {k} was still waiting after {blob[:24].hex()}... (len {len(blob)}) but the Data /t/a arriving afterwards '
                             f'did not complete it: {v.outcomes.get(k)}'))
        loop.settle()
        for key in v.pend:
            o = v.outcomes.get(key)
            if o is None or o.startswith('error:'):
                viol.append((f'C06|robust|{fe_name}|pending-interest-broken|{o}', f'pending Interest {key} ended with {o}'))
        late = [f for f in loop.task_failures(ignore=set(v.callers.values())) if f not in mid_fail]
        for f in late:
            viol.append((f"C06|robust|{fe_name}|task-error|{f['exception']}@{f['where']}", f"late: {f}"))
        v.app.shutdown()
        loop.settle()
        summary = (tuple(sorted((k, o.split(':')[0]) for k, o in v.outcomes.items())), tuple(v.handled))
    finally:
        v.close()
    return viol, summary


# =========================================================================================================
def plan(tier, seed):
    units = []
    nfr = sum(1 for _ in framing_cases(tier))
    ch = 400
    for lo in range(0, nfr, ch):
        units.append({'kind': 'framing', 'lo': lo, 'hi': min(nfr, lo + ch), 'tier': tier, 'd': 1 if tier == 'quick' else 2})
    sizes = {'framing_cases': nfr}
    for which in ('subst', 'trunc', 'edits', 'short', 'alpha', 'long', 'glued'):
        n = sum(1 for _ in mutation_space(tier, which))
        sizes[which] = n
        chunk = 2500
        for fe in ('v2', 'legacy'):
            for lo in range(0, n, chunk):
                units.append({'kind': 'robust', 'which': which, 'fe': fe, 'lo': lo, 'hi': min(n, lo + chunk), 'tier': tier})
    return {
        'units': units,
        'rule': 'framing: execution = (packet sequence, chunking, EOF offset, deviation placement); robustness: case = '
                '(front-end, byte string) delivered as a datagram into a freshly populated application. Non-trivial = a '
                'chunk boundary inside a type/length number or an EOF mid-packet; for robustness every case that is not '
                'one of the unmodified corpus packets.',
        'bounds': {'sizes': sizes, 'corpus': sorted(corpus()), 'substitution_values': 'menu of 12' if tier == 'quick' else 'all 256',
                   'framing_deviation_bound': 1 if tier == 'quick' else 2},
        'assumptions': ['bystander names differ from corpus names in more than one edit, so no single-edit mutant legitimately addresses them',
                        'stream-style deliveries are the sub-case of datagram deliveries with consistent outer framing'],
    }


def unit(arg):
    acc = Acc()
    if arg['kind'] == 'framing':
        for case in itertools.islice(framing_cases(arg['tier']), arg['lo'], arg['hi']):
            n0 = acc.evaluations
            v = run_framing(case, arg['d'], acc)
            stream_len = sum(len(PK[x]) for x in case['seq'])
            if case['eof'] < stream_len or case['cuts']:
                acc.nontrivial += acc.evaluations - n0
            acc.outcome(f"framing|npk={len(case['seq'])}|cuts={len(case['cuts'])}|eof={'end' if case['eof'] == stream_len else 'mid'}|{'ok' if not v else 'viol'}")
            acc.observe([case, [x[0] for x in v]])
            for sig, what, choices in v:
                acc.violation(sig, what, {'kind': 'framing', 'case': case, 'd': arg['d']})
            if (acc.evaluations // 300) != (n0 // 300):
                acc.sample({'framing': case})
        acc.max_dev_completed = arg['d']
    else:
        acc.state_hashes = None
        for label, blob in itertools.islice(mutation_space(arg['tier'], arg['which']), arg['lo'], arg['hi']):
            v, summary = run_robust(arg['fe'], blob)
            if not v and arg['which'] in ('long', 'glued', 'trunc', 'edits'):
                # the same delivery with the library's DEBUG logging turned on (every log line is formatted)
                from mc.ndnenv import debug_logging
                with debug_logging():
                    v2, summary2 = run_robust(arg['fe'], blob)
                acc.evaluations += 1
                acc.state_count += 1
                v = [(sg + '|debug-logging', w + ' (DEBUG logging enabled)') for sg, w in v2]
                if summary2 != summary and not v:
                    v.append((f"C06|robust|{arg['fe']}|behaviour-depends-on-logging", f'{label}: {summary} without, {summary2} with DEBUG logging'))
            acc.evaluations += 1
            acc.state_count += 1
            acc.transitions += 3
            acc.nontrivial += 0 if label.endswith('-asis') else 1
            acc.outcome(f"robust|{arg['fe']}|{arg['which']}|{summary}"[:200])
            acc.observe([label, summary, [x[0] for x in v]])
            for sig, what in v:
                acc.violation(sig, what, {'kind': 'robust', 'fe': arg['fe'], 'label': label, 'hex': blob.hex()})
            if acc.evaluations % 800 == 1:
                acc.sample({'robust': label, 'fe': arg['fe'], 'bytes': blob[:40].hex(), 'len': len(blob), 'summary': repr(summary)})
    return acc


def replay(case):
    if case['kind'] == 'framing':
        v = run_framing(case['case'], case['d'])
        return [{'sig': s, 'what': w} for s, w, _ in v]
    v, _ = run_robust(case['fe'], bytes.fromhex(case['hex']))
    if not v:
        from mc.ndnenv import debug_logging
        with debug_logging():
            v2, _ = run_robust(case['fe'], bytes.fromhex(case['hex']))
        v = [(sg + '|debug-logging', w) for sg, w in v2]
    return [{'sig': s, 'what': w} for s, w in v]
