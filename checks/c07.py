"""
C07 - packet decoders accept exactly the well-formed packets.

Decoders: parse_interest, parse_data, parse_lp_packet_v2, parse_certificate, Name.from_bytes.
Inputs (all enumerated completely):
  short  : all byte strings of length <= 2; all strings of length <= 4 over a 12-symbol alphabet
  typed  : per decoder, its outer type byte followed by every string of length <= 5 (quick) / 6 (thorough) over the alphabet
  edits  : every single-edit mutation of a corpus of valid packets: byte substitution (12 values / all 256), truncation,
           TLV-level edits at two nesting levels (delete, duplicate, swap, insert unknown critical / non-critical,
           length +-1, +2, non-minimal length), integer width edits (0,3,5,9 bytes)
  grammar: generated well-formed packets (field-presence products) with an unknown non-critical element inserted at every gap
Oracle: mc/ref/ndn_strict.py (independent strict reader), clauses (a)-(e) of DESIGN C07.
"""
from __future__ import annotations

import itertools
import json
import os
import signal
import struct
import sys

import ndn.encoding as enc
from ndn.encoding import Name
from ndn.app_support.security_v2 import parse_certificate

from mc.core import Acc
from mc.ref import tlv_strict as ts
from mc.ref import ndn_strict as ns
from checks import c06

PROPERTY = 'C07'

DOCUMENTED = (enc.DecodeError, IndexError, ValueError, struct.error, TypeError)
ALPHA12 = c06.ALPHA12
DECODERS = ['interest', 'data', 'lp', 'cert', 'name']
OUTER = {'interest': 0x05, 'data': 0x06, 'lp': 0x64, 'cert': 0x06, 'name': 0x07}


class StepLimit(Exception):
    pass


_steps = [0, 0]


def _tracer(frame, event, arg):
    if 'ndn/' not in frame.f_code.co_filename:
        return None

    def local(frame, event, arg):
        if event == 'line':
            _steps[0] += 1
            if _steps[0] > _steps[1]:
                raise StepLimit()
        return local
    return local


def _alarm(signum, frame):
    raise StepLimit()


def lib_decode(dec, blob, count_steps):
    """returns ('ok', fields) | ('reject', exception class name) | ('bad-exception', name) | ('steps', n)"""
    _steps[0] = 0
    _steps[1] = 400 * len(blob) + 4000
    if count_steps:
        sys.settrace(_tracer)
    else:
        signal.setitimer(signal.ITIMER_REAL, 5.0)
    try:
        if dec == 'interest':
            n, p, app, sig = enc.parse_interest(blob)
            f = {'name': [bytes(c) for c in n], 'cbp': bool(p.can_be_prefix), 'mbf': bool(p.must_be_fresh), 'nonce': p.nonce,
                 'lifetime': p.lifetime, 'hop_limit': p.hop_limit, 'fh': [[bytes(c) for c in x] for x in p.forwarding_hint],
                 'app': None if app is None else bytes(app), 'sig': siginfo_fields(sig.signature_info),
                 'sig_value': None if sig.signature_value_buf is None else bytes(sig.signature_value_buf),
                 'signed': b''.join(bytes(x) for x in sig.signature_covered_part),
                 'digest_cover': b''.join(bytes(x) for x in (sig.digest_covered_part or [])),
                 'digest_value': None if sig.digest_value_buf is None else bytes(sig.digest_value_buf)}
        elif dec == 'data':
            n, m, c, sig = enc.parse_data(blob)
            f = {'name': [bytes(x) for x in n], 'meta': meta_fields(m), 'content': None if c is None else bytes(c),
                 'sig': siginfo_fields(sig.signature_info),
                 'sig_value': None if sig.signature_value_buf is None else bytes(sig.signature_value_buf),
                 'signed': b''.join(bytes(x) for x in sig.signature_covered_part)}
        elif dec == 'lp':
            r = enc.parse_lp_packet_v2(blob)
            f = {'pit_token': None if r.pit_token is None else bytes(r.pit_token),
                 'nack': None if r.nack is None else {'reason': r.nack.nack_reason},
                 'fragment': None if r.fragment is None else bytes(r.fragment),
                 'congestion_mark': r.congestion_mark, 'incoming_face_id': r.incoming_face_id,
                 'next_hop_face_id': r.next_hop_face_id, 'non_discovery': bool(r.non_discovery),
                 'cache_policy': None if r.cache_policy is None else r.cache_policy.cache_policy_type}
            # the other documented entry points for the same packet (legacy tuple form; Value without the outer TL) agree with it
            f['entry_points'] = 'same'
            try:
                t_, s1 = enc.parse_tl_num(blob, 0)
                l_, s2 = enc.parse_tl_num(blob, s1)
                value = blob[s1 + s2:]
                want_pair = (None if r.nack is None else (r.nack.nack_reason if r.nack.nack_reason is not None else 0), f['fragment'])
                for label, call in (('parse_lp_packet', lambda: enc.ndnlp_v2.parse_lp_packet(blob)),
                                    ('parse_lp_packet(value, with_tl=False)', lambda: enc.ndnlp_v2.parse_lp_packet(value, with_tl=False))):
                    rr, ff = call()
                    got_pair = (None if rr is None else int(rr), None if ff is None else bytes(ff))
                    if got_pair != want_pair:
                        f['entry_points'] = f'{label} gives {got_pair[0]}/{None if got_pair[1] is None else len(got_pair[1])}'
                nr, nf = enc.ndnlp_v2.parse_network_nack(blob)
                want_n = (None, None) if r.nack is None else (r.nack.nack_reason, f['fragment'])
                if (None if nr is None else int(nr), None if nf is None else bytes(nf)) != (None if want_n[0] is None else int(want_n[0]), want_n[1]):
                    f['entry_points'] = f'parse_network_nack gives {nr}/{None if nf is None else len(nf)}'
                r3 = enc.parse_lp_packet_v2(value, with_tl=False)
                if (None if r3.fragment is None else bytes(r3.fragment)) != f['fragment'] or (r3.nack is None) != (r.nack is None):
                    f['entry_points'] = 'parse_lp_packet_v2(value, with_tl=False) differs'
            except StepLimit:
                raise
            except Exception as e:  # noqa
                f['entry_points'] = f'another entry point raises {type(e).__name__}'
        elif dec == 'cert':
            r = parse_certificate(blob)
            si = r.signature_info
            f = {'name': [bytes(x) for x in r.name], 'meta': meta_fields(r.meta_info) if r.meta_info is not None else None,
                 'content': None if r.content is None else bytes(r.content), 'sig': siginfo_fields(si),
                 'sig_value': None if r.signature_value is None else bytes(r.signature_value),
                 'not_before': None if si is None or si.validity_period is None or si.validity_period.not_before is None else bytes(si.validity_period.not_before),
                 'not_after': None if si is None or si.validity_period is None or si.validity_period.not_after is None else bytes(si.validity_period.not_after)}
            ad = None if si is None else si.additional_description
            f['descr'] = None if ad is None else [[None if e.description_key is None else bytes(e.description_key),
                                                   None if e.description_value is None else bytes(e.description_value)] for e in ad.description_entry]
        else:
            f = {'name': [bytes(c) for c in Name.from_bytes(blob)]}
        return 'ok', f
    except StepLimit:
        return 'steps', _steps[0]
    except DOCUMENTED as e:
        return 'reject', type(e).__name__
    except RecursionError:
        return 'bad-exception', 'RecursionError'
    except Exception as e:  # noqa
        return 'bad-exception', type(e).__name__
    finally:
        if count_steps:
            sys.settrace(None)
        else:
            signal.setitimer(signal.ITIMER_REAL, 0)


def siginfo_fields(si):
    if si is None:
        return None
    kl = si.key_locator
    return {'type': si.signature_type,
            'key_name': None if kl is None or kl.name is None else [bytes(c) for c in kl.name],
            'key_digest': None if kl is None or kl.key_digest is None else bytes(kl.key_digest),
            'nonce': si.signature_nonce, 'time': si.signature_time, 'seq': si.signature_seq_num}


def meta_fields(m):
    return {'content_type': m.content_type, 'freshness': m.freshness_period,
            'final_block_id': None if m.final_block_id is None else bytes(m.final_block_id)}


def ref_decode(dec, blob):
    """returns ('ok', fields, contested) | ('reject', clause)"""
    try:
        if dec == 'interest':
            r = ns.read_interest(blob)
            f = {k: r[k] for k in ('name', 'cbp', 'mbf', 'nonce', 'lifetime', 'hop_limit', 'fh', 'app', 'sig_value')}
            f['sig'] = ref_sig(r['sig_info'])
            f['signed'] = r['signed'] if r['sig_value'] is not None and r['app'] is not None else None
            f['digest_cover'] = r['digest_cover']
            f['digest_value'] = r['digest_value']
            f['n_digest_comps'] = r['n_digest_comps']
        elif dec in ('data', 'cert'):
            r = ns.read_data(blob, cert=(dec == 'cert'))
            f = {'name': r['name'], 'meta': r['meta'], 'content': r['content'], 'sig': ref_sig(r['sig_info']),
                 'sig_value': r['sig_value'], 'signed': r['signed']}
            if dec == 'cert':
                f['not_before'] = r['sig_info']['not_before'] if r['sig_info'] else None
                f['not_after'] = r['sig_info']['not_after'] if r['sig_info'] else None
                f['descr'] = r['sig_info']['descr'] if r['sig_info'] else None
                f.pop('signed')
        elif dec == 'lp':
            r = ns.read_lp(blob)
            f = {k: r[k] for k in ('pit_token', 'nack', 'fragment', 'congestion_mark', 'incoming_face_id',
                                   'next_hop_face_id', 'non_discovery', 'cache_policy')}
            f['entry_points'] = 'same'
        else:
            e = ts.read_el(blob, 0, len(blob), minimal=False)     # bytes after the Name element are not this decoder's business
            if e.typ != 7:
                raise ts.Malformed('type')
            r = {'contested': []}
            f = {'name': [c.wire for c in e.children(minimal=False)]}
        return 'ok', f, r['contested']
    except ts.Malformed as e:
        clause = e.clause
        if clause in ('overrun', 'tl-truncated'):
            # where: inside a Name (decoded by Name.decode), inside another container (decoded by TlvModel.parse), or the outer buffer
            clause += '|in=' + ('outer' if e.parent is None else ('name' if e.parent == 7 else 'model'))
        return 'reject', clause, None


def ref_sig(si):
    if si is None:
        return None
    return {'type': si['type'], 'key_name': si['key_name'], 'key_digest': si['key_digest'], 'nonce': si['nonce'],
            'time': si['time'], 'seq': si['seq']}


def compare(dec, lf, rf):
    """field-wise comparison of accepted packets; returns list of differing field names"""
    diff = []
    for k, rv in rf.items():
        if k == 'n_digest_comps':
            continue
        lv = lf.get(k)
        if k == 'meta':
            if rv is None:
                # an absent MetaInfo reads as the default (ContentType BLOB)
                if dec == 'data' and lv != {'content_type': 0, 'freshness': None, 'final_block_id': None}:
                    diff.append(k)
                if dec == 'cert' and lv is not None:
                    diff.append(k)
                continue
        if k == 'signed':
            if rv is None:
                continue
            if rf.get('sig_value') is None:
                continue
        if k in ('digest_cover',):
            if rv is None:
                continue
        if k == 'digest_value':
            if rf.get('n_digest_comps', 0) != 1:
                continue
        if k == 'sig' and rv is not None and lv is not None:
            for kk in rv:
                if rv[kk] != lv.get(kk):
                    # an empty KeyLocator name and an absent one are the same reading
                    if kk == 'key_name' and not rv[kk] and not lv.get(kk):
                        continue
                    diff.append('sig.' + kk)
            continue
        if lv != rv:
            diff.append(k)
    return diff


def judge(dec, blob, count_steps, grammar=False):
    """returns (outcome key, violations)"""
    viol = []
    lres = lib_decode(dec, blob, count_steps)
    rres = ref_decode(dec, blob)
    head = blob[:16].hex()
    if lres[0] == 'steps':
        viol.append((f'C07|{dec}|step-bound', f'decoding {head}.. (len {len(blob)}) exceeded the step bound: {lres[1]} line events'))
        return 'steps', viol
    if lres[0] == 'bad-exception':
        viol.append((f'C07|{dec}|undocumented-exception:{lres[1]}', f'decoding {head}.. (len {len(blob)}) raised {lres[1]}'))
        return 'bad-exception', viol
    if lres[0] == 'reject':
        if grammar and rres[0] == 'ok' and not rres[2]:
            viol.append((f'C07|{dec}|well-formed-rejected:{lres[1]}', f'generated well-formed packet {head}.. (len {len(blob)}) rejected with {lres[1]}'))
        return ('both-reject' if rres[0] == 'reject' else 'lib-stricter:' + lres[1]), viol
    # library accepted
    if rres[0] == 'reject':
        viol.append((f'C07|{dec}|accepted-malformed:{rres[1]}', f'accepted {head}.. (len {len(blob)}) although: {rres[1]}'))
        return 'accepted-malformed', viol
    if rres[2]:
        return 'accept-contested', viol
    diff = compare(dec, lres[1], rres[1])
    if diff:
        viol.append((f'C07|{dec}|field-differs:{",".join(sorted(set(diff)))[:60]}',
                     f'accepted {head}.. (len {len(blob)}): fields {diff} differ from the strict reading; '
                     f'library {short({k: lres[1].get(k.split(".")[0]) for k in diff})} strict {short({k: rres[1].get(k.split(".")[0]) for k in diff})}'))
        return 'field-differs', viol
    return 'both-accept', viol


def short(d):
    return {k: (v.hex()[:24] if isinstance(v, bytes) else (repr(v)[:60])) for k, v in d.items()}


# -- input spaces -----------------------------------------------------------------------------------------
def corpus():
    cp = dict(c06.corpus())
    ip = enc.InterestParam(nonce=1, lifetime=4000, can_be_prefix=True, must_be_fresh=True, hop_limit=3,
                           forwarding_hint=['/h1', '/h2/x'])
    cp['interest-full'] = bytes(enc.make_interest('/i/full', ip, b'params'))
    cp['data-full'] = bytes(enc.make_data('/d/full', enc.MetaInfo(content_type=2, freshness_period=1000,
                                                                  final_block_id=bytes(enc.Component.from_segment(3))), b'content'))
    cp['data-min'] = bytes(enc.make_data('/d', None, None))
    cp['data-rootname'] = bytes(enc.make_data('/', enc.MetaInfo(freshness_period=5), b'named /'))       # a Name element with no components
    cp['interest-rootname'] = bytes(enc.make_interest('/', enc.InterestParam(nonce=2, lifetime=10, can_be_prefix=True)))
    cp['name'] = bytes(Name.to_bytes('/a/b/32=c'))
    # a certificate whose SignatureInfo carries ValidityPeriod and AdditionalDescription (two entries)
    base = ts.read_single(cp['certificate']) if 'certificate' in cp else None
    if base is not None:
        ch = base.children()
        si = [c for c in ch if c.typ == 0x16][0]
        descr = ts.tlv(0x0102, ts.tlv(0x0200, ts.tlv(0x0201, b'org') + ts.tlv(0x0202, b'example')) + ts.tlv(0x0200, ts.tlv(0x0201, b'mail') + ts.tlv(0x0202, b'a@b')))
        cp['certificate-described'] = ts.tlv(6, b''.join(c.wire if c is not si else ts.tlv(0x16, si.value + descr) for c in ch))
    lp = enc.ndnlp_v2.LpPacket()
    lp.lp_packet = enc.ndnlp_v2.LpPacketValue()
    lp.lp_packet.pit_token = b'tk'
    lp.lp_packet.incoming_face_id = 300
    lp.lp_packet.next_hop_face_id = 5
    lp.lp_packet.congestion_mark = 1
    lp.lp_packet.non_discovery = True
    lp.lp_packet.cache_policy = enc.ndnlp_v2.CachePolicy()
    lp.lp_packet.cache_policy.cache_policy_type = 1
    lp.lp_packet.fragment = cp['data-min']
    cp['lp-full'] = bytes(lp.encode())
    # a forwarder nacking an Interest that was sent with a PIT token: both headers, in increasing type order
    cp['lp-token-nack'] = ts.tlv(0x64, ts.tlv(0x62, b'tk') + ts.tlv(0x0320, ts.tlv(0x0321, b'\x96')) + ts.tlv(0x50, cp['interest']))
    cp['lp-token-nack-noreason'] = ts.tlv(0x64, ts.tlv(0x62, b'\x00' * 32) + ts.tlv(0x0320, b'') + ts.tlv(0x50, cp['interest']))
    return cp


_CP = None


def get_corpus():
    global _CP
    if _CP is None:
        c06.corpus()
        _CP = corpus()
    return _CP


DEC_FOR = {'interest': ['interest'], 'data': ['data', 'cert'], 'certificate': ['cert', 'data'], 'lp': ['lp'], 'name': ['name']}


def decoders_for(label):
    if label.startswith('lp') or label.startswith('nack'):
        return ['lp']
    if label.startswith('interest'):
        return ['interest']
    if label.startswith('certificate'):
        return ['cert', 'data']
    if label.startswith('data'):
        return ['data', 'cert']
    if label.startswith('name'):
        return ['name']
    return DECODERS


def uint_width_edits(wire):
    """give every 1/2/4/8-byte leaf at the first three nesting levels the widths 0,3,5,9"""
    out = []

    def rec(buf, depth, rebuild):
        try:
            ch = ts.read_seq(buf, 0, len(buf), minimal=False)
        except ts.Malformed:
            return
        for i, c in enumerate(ch):
            parts = [x.wire for x in ch]
            if c.length in (1, 2, 4, 8):
                for w in (0, 3, 5, 9):
                    parts2 = list(parts)
                    parts2[i] = ts.tlv(c.typ, (c.value + b'\x00' * 9)[:w])
                    out.append(rebuild(b''.join(parts2)))
            if depth < 3 and c.length > 1:
                def rb(v, i=i, c=c, parts=parts):
                    p2 = list(parts)
                    p2[i] = ts.tlv(c.typ, v)
                    return rebuild(b''.join(p2))
                rec(c.value, depth + 1, rb)
    rec(wire, 0, lambda v: v)
    return out


# elements whose value is a NonNegativeInteger of any of the widths 1, 2, 4, 8 (not the fixed-width Nonce / HopLimit)
INT_TYPES = {0x0c, 0x18, 0x19, 0x1b, 0x0321, 0x0340, 0x032c, 0x0330, 0x0335, 0x0348}


def legal_width_edits(wire):
    """every NonNegativeInteger element at the first three nesting levels re-encoded in each other legal width"""
    out = []

    def rec(buf, depth, rebuild):
        try:
            ch = ts.read_seq(buf, 0, len(buf), minimal=False)
        except ts.Malformed:
            return
        for i, c in enumerate(ch):
            parts = [x.wire for x in ch]
            if c.typ in INT_TYPES and c.length in (1, 2, 4, 8):
                n = int.from_bytes(c.value, 'big')
                for w in (1, 2, 4, 8):
                    if w != c.length and n < 1 << (8 * w):
                        parts2 = list(parts)
                        parts2[i] = ts.tlv(c.typ, n.to_bytes(w, 'big'))
                        out.append(rebuild(b''.join(parts2)))
            elif depth < 3 and c.length > 1 and c.typ not in (7, 0x15, 0x17, 0x24, 0x2e):
                def rb(v, i=i, c=c, parts=parts):
                    p2 = list(parts)
                    p2[i] = ts.tlv(c.typ, v)
                    return rebuild(b''.join(p2))
                rec(c.value, depth + 1, rb)
    rec(wire, 0, lambda v: v)
    return out


def space(tier, which):
    cp = get_corpus()
    if which == 'short':
        yield 'all', b''
        for a in range(256):
            yield 'all', bytes([a])
        for a in range(256):
            for b in range(256):
                yield 'all', bytes([a, b])
        for n in (3, 4):
            for tup in itertools.product(ALPHA12, repeat=n):
                yield 'all', bytes(tup)
    elif which.startswith('typed:'):
        dec = which.split(':')[1]
        L = 5 if tier == 'quick' else 6
        t = OUTER[dec]
        for n in range(0, L + 1):
            for tup in itertools.product(ALPHA12, repeat=n):
                body = bytes(tup)
                yield dec, bytes([t]) + body
                if n >= 1:
                    yield dec, bytes([t, n]) + body          # consistent outer length
    elif which == 'subst':
        vals = c06.SUBST_QUICK if tier == 'quick' else list(range(256))
        for name, w in cp.items():
            for pos in range(len(w)):
                for v in vals:
                    if w[pos] != v:
                        yield name, w[:pos] + bytes([v]) + w[pos + 1:]
    elif which == 'trunc':
        for name, w in cp.items():
            yield name, w
            for k in range(len(w)):
                yield name, w[:k]
            try:
                top = ts.read_single(w, minimal=False)
            except ts.Malformed:
                continue
            for k in range(1, top.length + 1):
                yield name, ts.tlv(top.typ, top.value[:top.length - k])
    elif which == 'edits':
        for name, w in cp.items():
            for m in c06.tlv_edits(w):
                yield name, m
            for m in uint_width_edits(w):
                yield name, m
    elif which == 'grammar':
        for name, w in cp.items():
            if name in ('lp-no-fragment', 'lp-empty', 'lp-empty-fragment', 'lp-frag-fields', 'lp-nack-garbage',
                        'lp-nack-no-fragment', 'unknown-type'):
                continue
            yield name, w
            for m in legal_width_edits(w):
                yield name, m
            top = ts.read_single(w)
            ch = top.children()
            for unk in (ts.tlv(0x7c, b''), ts.tlv(0xf0, b'unknown'), ts.tlv(0xfffe, b'\x01'), ts.tlv(0x10000, b'five-octet type'),
                        ts.tlv(0xfffffffe, b'')):
                for i in range(len(ch) + 1):
                    parts = [c.wire for c in ch]
                    yield name, ts.tlv(top.typ, b''.join(parts[:i] + [unk] + parts[i:]))
                # inside second-level containers that are sequences (MetaInfo, SignatureInfo, KeyLocator, Nack ...)
                for i, c in enumerate(ch):
                    if c.typ in (0x14, 0x16, 0x2c, 0x1e, 0x0320, 0x0334):
                        sub = c.children()
                        for j in range(len(sub) + 1):
                            sp = [x.wire for x in sub]
                            parts = [x.wire for x in ch]
                            parts[i] = ts.tlv(c.typ, b''.join(sp[:j] + [unk] + sp[j:]))
                            yield name, ts.tlv(top.typ, b''.join(parts))


SPACES = ['short'] + [f'typed:{d}' for d in DECODERS] + ['subst', 'trunc', 'edits', 'grammar']


def plan(tier, seed):
    units = []
    sizes = {}
    for sp in SPACES:
        n = sum(1 for _ in space(tier, sp))
        sizes[sp] = n
        chunk = 20000 if sp in ('short',) or sp.startswith('typed') else 4000
        for lo in range(0, n, chunk):
            units.append({'space': sp, 'lo': lo, 'hi': min(n, lo + chunk), 'tier': tier})
    # decode order: every ordered pair (first packet, first decoder) -> (second packet, second decoder) of the valid corpus in a
    # process that has decoded nothing else (decoders share model classes by inheritance; nothing may survive between calls)
    labels = sorted(get_corpus())
    firsts = [(la, d) for la in labels for d in decoders_for(la)]
    for k, (la, d) in enumerate(firsts):
        units.append({'space': 'order', 'first': [la, d], 'tier': tier})
    sizes['order'] = len(firsts) ** 2
    return {
        'units': units,
        'rule': 'case = (decoder, byte string); every string of each sub-space is given to every decoder it can concern. '
                'Non-trivial = the string is not rejected by the outer type/length check alone (the strict reader gets past the '
                'outer element) or the library accepts it.',
        'bounds': {'sizes': sizes, 'alphabet': [f'{a:02x}' for a in ALPHA12], 'corpus': sorted(get_corpus()),
                   'step_bound': '400*len+4000 line events in ndn/ (mutation and grammar spaces); 5 s wall per input elsewhere'},
        'assumptions': ['"critical" follows the library documentation (odd type); irregularities that only concern even types below 32 '
                        'are contested and carry no claim for clauses b-d',
                        'a non-minimal type/length number is not a stated reason for rejection',
                        'library rejecting what the strict reader accepts is recorded (lib-stricter) but only a violation for generated well-formed packets'],
    }


def unit_order(arg):
    acc = Acc()
    acc.state_hashes = None
    cp = get_corpus()
    la, d = arg['first']
    signal.signal(signal.SIGALRM, _alarm)
    labels = sorted(cp)
    for lb in labels:
        for d2 in decoders_for(lb):
            # a fresh child per pair: what the first decode leaves behind is all the second one can see
            r, w = os.pipe()
            pid = os.fork()
            if pid == 0:
                try:
                    os.close(r)
                    out = []
                    for lab, dec in ((la, d), (lb, d2)):
                        key, viol = judge(dec, cp[lab], False)
                        out.append([key, viol])
                    os.write(w, json.dumps(out).encode())
                finally:
                    os._exit(0)
            os.close(w)
            buf = b''
            while True:
                chunk = os.read(r, 65536)
                if not chunk:
                    break
                buf += chunk
            os.close(r)
            os.waitpid(pid, 0)
            res = json.loads(buf) if buf else [['child-died', [['C07|order|child-died', f'{la}/{d} then {lb}/{d2}']]]] * 2
            acc.evaluations += 1
            acc.state_count += 1
            acc.transitions += 2
            acc.nontrivial += 1
            acc.outcome(f'order|{d}>{d2}|{res[1][0]}')
            acc.observe([la, d, lb, d2, res[1][0]])
            for sig, what in res[1][1]:
                acc.violation(sig + f'|after:{d}', what + f' (after decoding {la} with {d} in the same process)',
                              {'order': [[la, d], [lb, d2]]})
    acc.sample({'first': arg['first'], 'second': 'every corpus packet x decoder'})
    return acc


def unit(arg):
    if arg['space'] == 'order':
        return unit_order(arg)
    acc = Acc()
    acc.state_hashes = None
    sp = arg['space']
    count_steps = sp in ('subst', 'trunc', 'edits', 'grammar')
    signal.signal(signal.SIGALRM, _alarm)
    for label, blob in itertools.islice(space(arg['tier'], sp), arg['lo'], arg['hi']):
        decs = DECODERS if label == 'all' else ([label] if label in DECODERS else decoders_for(label))
        for dec in decs:
            key, viol = judge(dec, blob, count_steps, grammar=(sp == 'grammar'))
            acc.evaluations += 1
            acc.state_count += 1
            acc.transitions += 2
            if not key.startswith('both-reject') or len(blob) > 4:
                acc.nontrivial += 1
            if key == 'accept-contested':
                acc.no_claim += 1
            acc.outcome(f'{dec}|{key}')
            acc.notes[f'{sp.split(":")[0]}'] += 1
            acc.observe([dec, blob.hex()[:64], key])
            for sig, what in viol:
                acc.violation(sig, what, {'dec': dec, 'hex': blob.hex(), 'steps': count_steps, 'grammar': sp == 'grammar'})
            if acc.evaluations % 5000 == 1:
                acc.sample({'decoder': dec, 'bytes': blob[:32].hex(), 'len': len(blob), 'outcome': key})
    return acc


def replay(case):
    signal.signal(signal.SIGALRM, _alarm)
    if 'order' in case:
        # (the runner replays every case in a freshly forked child)
        cp = get_corpus()
        (la, d), (lb, d2) = case['order']
        judge(d, cp[la], False)
        _, viol = judge(d2, cp[lb], False)
        return [{'sig': s + f'|after:{d}', 'what': w} for s, w in viol]
    _, viol = judge(case['dec'], bytes.fromhex(case['hex']), case['steps'], case.get('grammar', False))
    return [{'sig': s, 'what': w} for s, w in viol]
