"""
C08 - TLV models encode to exact, minimal TLV and decode back to equal values.

programs: every model class with 1..2 fields (thorough: 1..3) over 16 field kinds (var / fixed-width integers, boolean,
          bytes, text, name, sub-model, repeated integer/bytes/name/model, integer->bytes map, text->model map),
          nesting depth <= 2, type numbers from {1,0x7F,0x80,252,253,65535,65536,2^32-1} assigned in declared order,
          classes created with type() at run time; plus inheritance / IncludeBase patterns.
values  : complete product of per-kind boundary menus for every shape.
shipped : every shipped TlvModel whose shape can be reflected from _encoded_fields (NFD management, NDNLPv2, LVS binary,
          SVS, certificates, packet sub-models): field-presence subsets x boundary-value rotations.
oracle  : reference writer driven by the declared shape (mc/ref/tlv_writer.py): encode() bytes equal, encoded_length()
          equal, parse(encode(m)) == m field by field; an unknown non-critical element inserted at every gap of every
          nesting level does not change the parse; an unknown critical element, a repeated or out-of-order declared
          critical element raises DecodeError.
"""
from __future__ import annotations

import itertools
from enum import Enum, Flag

import ndn.encoding as enc
from ndn.encoding import tlv_model as tm

from mc.core import Acc
from mc.ref import tlv_strict as ts
from mc.ref import tlv_writer as tw

PROPERTY = 'C08'

TYPE_MENU = [1, 0x7F, 0x80, 252, 253, 65535, 65536, 2 ** 32 - 1]
UNK_NONCRIT = ts.tlv(0x7E, b'\x99')
UNK_NONCRIT_BIG = ts.tlv(0xFFFE, b'')
UNK_CRIT = ts.tlv(0x7D, b'\x99')
C1, C2, C3 = ts.tlv(8, b'a'), ts.tlv(8, b''), ts.tlv(32, b'k')
CL = ts.tlv(8, b'L' * 253)          # one component whose value needs a 3-byte length

KINDS = ['uint', 'uint1', 'uint2', 'uint4', 'uint8', 'bool', 'bytes', 'text', 'name', 'model',
         'rep-uint', 'rep-bytes', 'rep-name', 'rep-model', 'map-uint-bytes', 'map-text-model', 'map-uint-uint', 'map-uint-model', 'map-bytes-uint', 'map-uint-nest']


def field_of(kind, n, types):
    """build one field description; `types` is an iterator of fresh type numbers"""
    t = next(types)
    if kind == 'uint':
        return {'n': n, 'k': 'uint', 't': t}
    if kind.startswith('uint'):
        return {'n': n, 'k': 'uint', 't': t, 'fixed': int(kind[4:])}
    if kind in ('bool', 'bytes', 'text'):
        return {'n': n, 'k': kind, 't': t}
    if kind == 'name':
        return {'n': n, 'k': 'name', 't': 7}
    if kind == 'model':
        return {'n': n, 'k': 'model', 't': t, 'fields': [{'n': 'x', 'k': 'uint', 't': next(types)},
                                                         {'n': 'y', 'k': 'bytes', 't': next(types)}]}
    if kind == 'rep-uint':
        return {'n': n, 'k': 'rep', 't': t, 'e': {'n': None, 'k': 'uint', 't': t}}
    if kind == 'rep-bytes':
        return {'n': n, 'k': 'rep', 't': t, 'e': {'n': None, 'k': 'bytes', 't': t}}
    if kind == 'rep-name':
        return {'n': n, 'k': 'rep', 't': 7, 'e': {'n': None, 'k': 'name', 't': 7}}
    if kind == 'rep-model':
        return {'n': n, 'k': 'rep', 't': t, 'e': {'n': None, 'k': 'model', 't': t,
                                                  'fields': [{'n': 'x', 'k': 'uint', 't': next(types)},
                                                             {'n': 'z', 'k': 'text', 't': next(types)}]}}
    if kind == 'map-uint-bytes':
        return {'n': n, 'k': 'map', 't': t, 'key': {'n': None, 'k': 'uint', 't': t}, 'val': {'n': None, 'k': 'bytes', 't': next(types)}}
    if kind == 'map-bytes-uint':
        return {'n': n, 'k': 'map', 't': t, 'key': {'n': None, 'k': 'bytes', 't': t}, 'val': {'n': None, 'k': 'uint', 't': next(types)}}
    if kind == 'map-uint-uint':
        return {'n': n, 'k': 'map', 't': t, 'key': {'n': None, 'k': 'uint', 't': t}, 'val': {'n': None, 'k': 'uint', 't': next(types)}}
    if kind == 'map-uint-model':
        return {'n': n, 'k': 'map', 't': t, 'key': {'n': None, 'k': 'uint', 't': t},
                'val': {'n': None, 'k': 'model', 't': next(types), 'fields': [{'n': 'x', 'k': 'uint', 't': next(types)},
                                                                             {'n': 'y', 'k': 'bytes', 't': next(types)}]}}
    if kind == 'map-uint-nest':
        # a map of sub-models each of which holds a map of its own under the same attribute name
        return {'n': n, 'k': 'map', 't': t, 'key': {'n': None, 'k': 'uint', 't': t},
                'val': {'n': None, 'k': 'model', 't': next(types), 'fields': [{'n': n, 'k': 'map', 't': (t2 := next(types)), 'key': {'n': None, 'k': 'uint', 't': t2},
                                                                              'val': {'n': None, 'k': 'uint', 't': next(types)}}]}}
    if kind == 'map-text-model':
        return {'n': n, 'k': 'map', 't': t, 'key': {'n': None, 'k': 'text', 't': t},
                'val': {'n': None, 'k': 'model', 't': next(types), 'fields': [{'n': 'x', 'k': 'uint', 't': next(types)}]}}
    raise ValueError(kind)


def type_cycle(start):
    i = start
    while True:
        yield TYPE_MENU[i % len(TYPE_MENU)]
        i += 1


def shape_from_kinds(kinds, rot):
    types = type_cycle(rot)
    shape = []
    for i, k in enumerate(kinds):
        f = field_of(k, f'f{i}', types)
        shape.append(f)
    # the same type twice in one model (two name fields, or the menu wrapped) is not a legal program
    top = [f['t'] for f in shape] + [f['val']['t'] for f in shape if f['k'] == 'map']
    if len(set(top)) != len(top):
        return None
    return shape


# -- class construction from a shape --------------------------------------------------------------------
_CLS = {}


def lib_field(f):
    k = f['k']
    kw = {'default': f['default_lib']} if 'default_lib' in f else {}
    if k == 'uint':
        return tm.UintField(f['t'], fixed_len=f.get('fixed'), **kw)
    if k == 'bool':
        return tm.BoolField(f['t'], **kw)
    if k == 'bytes':
        return tm.BytesField(f['t'], **kw)
    if k == 'text':
        return tm.BytesField(f['t'], is_string=True, **kw)
    if k == 'name':
        return tm.NameField(**kw)
    if k == 'model':
        return tm.ModelField(f['t'], build_class(f['fields']), ignore_critical=f.get('ic', False))
    if k == 'rep':
        return tm.RepeatedField(lib_field(f['e']))
    if k == 'map':
        return tm.MapField(lib_field(f['key']), lib_field(f['val']))
    raise ValueError(k)


def build_class(shape):
    key = repr(shape)
    if key not in _CLS:
        attrs = {f['n']: lib_field(f) for f in shape}
        _CLS[key] = type(f'Gen{len(_CLS)}', (tm.TlvModel,), attrs)
    return _CLS[key]


def to_lib(f, v):
    k = f['k']
    if v is None:
        return None
    if k == 'model':
        return make_instance(f['fields'], v)
    if k == 'rep':
        return [to_lib(f['e'], x) for x in v]
    if k == 'map':
        return {kk: to_lib(f['val'], vv) for kk, vv in v}
    if k == 'name':
        if isinstance(v, TextName):
            return list(v.given)          # text elements and a URI as the application would give them
        return [bytes(c) for c in v]
    return v


class TextName(list):
    """a name value (list of component wires) handed to the library in another accepted form: text elements / a URI string"""

    def __init__(self, comps, given):
        super().__init__(comps)
        self.given = given


def make_instance(shape, values, cls=None, fill_in_place=False):
    cls = cls or build_class(shape)
    m = cls()
    for f in shape:
        v = values.get(f['n'])
        if f['k'] in ('rep', 'map'):
            lv = to_lib(f, v or [])
            if fill_in_place and lv:
                # the application fills the container a fresh model hands out, element by element, instead of assigning one
                cur = getattr(m, f['n'])
                if f['k'] == 'rep':
                    for x in lv:
                        cur.append(x)
                else:
                    for kk, vv in lv.items():
                        cur[kk] = vv
            else:
                setattr(m, f['n'], lv)
        else:
            setattr(m, f['n'], to_lib(f, v))
    return m


def from_lib(f, v):
    """normalise a parsed library value to the python values of the reference"""
    k = f['k']
    if k == 'rep':
        return [from_lib(f['e'], x) for x in (v or [])]
    if k == 'map':
        return [(kk if not isinstance(kk, memoryview) else bytes(kk), from_lib(f['val'], vv)) for kk, vv in (v or {}).items()]
    if v is None:
        return None
    if k == 'model':
        return {g['n']: from_lib(g, getattr(v, g['n'])) for g in f['fields']}
    if k == 'bytes':
        return bytes(v)
    if k == 'name':
        return [bytes(c) for c in v]
    if k == 'bool':
        return True if v else None
    if k == 'uint':
        if isinstance(v, (Enum, Flag)):
            return v.value
        return int(v)
    return v


def norm_values(shape, values):
    """canonical form of reference values for comparison (False -> None, missing -> None, empty containers)"""
    out = {}
    for f in shape:
        v = values.get(f['n'])
        out[f['n']] = norm_value(f, v)
    return out


def norm_value(f, v):
    k = f['k']
    if k == 'rep':
        return [norm_value(f['e'], x) for x in (v or [])]
    if k == 'map':
        return [(kk, norm_value(f['val'], vv)) for kk, vv in (v or [])]
    if v is None:
        return None
    if k == 'model':
        return norm_values(f['fields'], v)
    if k == 'bool':
        return True if v else None
    if k == 'bytes':
        return bytes(v)
    if k == 'name':
        return [bytes(c) for c in v]
    return v


TN1 = TextName([ts.tlv(8, 'a b'.encode()), ts.tlv(8, 'c:d'.encode()), ts.tlv(8, 'é'.encode())], ['a b', 'c:d', 'é'])
TN2 = TextName([ts.tlv(8, b'x'), ts.tlv(8, 'né e'.encode()), ts.tlv(0x20, b'k')], ['x', 'né e', ts.tlv(0x20, b'k')])
# text whose escaped form (600 characters) and whose value (200 bytes) lie on different sides of the one-byte length limit
TN3 = TextName([ts.tlv(8, ('é' * 100).encode()), ts.tlv(8, b'z')], [enc.Component.to_str(ts.tlv(8, ('é' * 100).encode())), 'z'])


# -- value menus ---------------------------------------------------------------------------------------
def menu(f, level, tier):
    k = f['k']
    if k == 'uint':
        if f.get('fixed'):
            full = [None, 0, 2 ** (8 * f['fixed']) - 1, 1]
        else:
            full = [None, 0, 255, 256, 65535, 65536, 2 ** 32 - 1, 2 ** 32, 2 ** 64 - 1]
            if f.get('enum'):
                full = [None] + f['enum']
    elif k == 'bool':
        full = [None, True, False]
    elif k == 'bytes':
        full = [None, b'', b'\x01', bytes(252), bytes(253)] + ([bytes(65536)] if tier == 'thorough' else [])
    elif k == 'text':
        full = [None, '', 'a', 'é', '日本', 'é' * 126, 'x' * 253, 'é' * 127]
    elif k == 'name':
        # (the last two: components whose type number takes three octets - 300 and 64767 - and one at the largest one-octet type)
        full = [None, [], [C1], [C1, C2, C3], [CL], [C1] * 126, [C1, CL, C3], TN1, TN2, TN3, [ts.tlv(300, b'abc'), C1], [ts.tlv(252, b''), ts.tlv(64767, b'z')]]
    elif k == 'model':
        subs = [menu(g, 1, tier) for g in f['fields']]
        full = [None, {}] + [dict(zip([g['n'] for g in f['fields']], combo)) for combo in itertools.product(*subs)][:12]
    elif k == 'rep':
        em = [x for x in menu(f['e'], 1, tier) if x is not None]
        full = [[], em[:1], em[:2][::-1], em[:3]]
    elif k == 'map':
        km = [x for x in menu(f['key'], 0, tier) if x is not None]
        vm = [x for x in menu(f['val'], 1, tier) if x is not None]
        pairs = [(km[i % len(km)], vm[(i + 1) % len(vm)]) for i in range(3)] + [(km[(i + 3) % len(km)], vm[(i * 2) % len(vm)]) for i in range(2)]
        # keys must be distinct
        seen, uniq = set(), []
        for kk, vv in pairs:
            if kk not in seen:
                seen.add(kk)
                uniq.append((kk, vv))
        full = [[], uniq[:1], uniq[:2], uniq[:3], uniq[3:5], uniq[1:2]]
    else:
        raise ValueError(k)
    if level == 0:
        return full
    # reduced menu: absent + the two most boundary-ish values
    red = [full[0]] + [full[i] for i in (len(full) - 1, len(full) // 2) if i > 0]
    out = []
    for x in red:
        if x not in out:
            out.append(x)
    return out


# -- the oracle for one (shape, values) -------------------------------------------------------------------
def parse_with(cls, wire):
    return cls.parse(wire)


def check_case(shape, values, tier, deep=True):
    """returns (outcome key, violations)"""
    viol = []
    cls = build_class(shape)
    ref = tw.enc_model(shape, values)
    kinds = '+'.join(kind_tag(f) for f in shape)

    def bad(clause, what):
        viol.append((f'C08|{clause}', f'{what}; shape {shape_str(shape)} values {val_str(values)}'))
    try:
        m = make_instance(shape, values, cls)
        n = m.encoded_length()
        wire = bytes(m.encode())
    except Exception as e:  # noqa
        bad(f'encode-raises:{type(e).__name__}', f'encoding raised {e!r}')
        return 'encode-raises', viol
    if wire != ref:
        bad('encode-bytes', f'encode() = {wire[:24].hex()}.. ({len(wire)} B) but the declared shape gives {ref[:24].hex()}.. ({len(ref)} B)')
        return 'encode-differs', viol
    if n != len(ref):
        bad('encoded-length', f'encoded_length() = {n}, actual size {len(ref)}')
    if any(f['k'] in ('rep', 'map') and values.get(f['n']) for f in shape):
        try:
            w2 = bytes(make_instance(shape, values, cls, fill_in_place=True).encode())
            if w2 != ref:
                bad('encode-bytes|container-filled-in-place', f'a model whose list / map fields were filled element by element encodes to '
                                                              f'{w2[:24].hex()}.. ({len(w2)} B), the declared shape gives {ref[:24].hex()}.. ({len(ref)} B)')
        except Exception as e:  # noqa
            bad(f'encode-raises:{type(e).__name__}|container-filled-in-place', f'{e!r}')
    # the documented buffer form: encode(wire, offset) into a caller-owned buffer that is not zero-filled
    try:
        buf = bytearray(b'\xa5' * (len(ref) + 7))
        ret = make_instance(shape, values, cls).encode(buf, 3)
        if bytes(buf[3:3 + len(ref)]) != ref:
            bad('encode-into-buffer', f'encode(buffer, 3) wrote {bytes(buf[3:3 + len(ref)])[:24].hex()}.. but the declared shape gives {ref[:24].hex()}..')
        elif bytes(buf[:3]) != b'\xa5' * 3 or bytes(buf[3 + len(ref):]) != b'\xa5' * 4:
            bad('encode-into-buffer-outside', 'encode(buffer, 3) touched bytes outside its range')
        elif ret is not buf:
            bad('encode-into-buffer-return', 'encode(buffer, 3) did not return the buffer')
    except Exception as e:  # noqa
        bad(f'encode-into-buffer-raises:{type(e).__name__}', f'encode(buffer, 3) raised {e!r}')
    # a model is encoded, one of its name / list values is changed in place by the application, and it is encoded again
    for f in shape:
        v = values.get(f['n'])
        if (f['k'] == 'name' and v is not None and not isinstance(v, TextName)) or (f['k'] == 'rep' and f['e']['k'] in ('uint', 'bytes') and v):
            try:
                m2 = make_instance(shape, values, cls)
                m2.encode()
                cur = getattr(m2, f['n'])
                extra = C3 if f['k'] == 'name' else v[0]
                cur.append(extra)
                v2 = dict(values)
                v2[f['n']] = list(v) + [extra]
                w2, n2 = bytes(m2.encode()), m2.encoded_length()
                r2 = tw.enc_model(shape, v2)
                if w2 != r2 or n2 != len(r2):
                    bad(f'encode-bytes|changed-in-place:{f["k"]}', f'after an element was appended to field {f["n"]} of an already encoded model, encode() = '
                                                                   f'{w2[:24].hex()}.. ({len(w2)} B, encoded_length {n2}), the values now give {r2[:24].hex()}.. ({len(r2)} B)')
            except Exception as e:  # noqa
                bad(f'encode-raises:{type(e).__name__}|changed-in-place:{f["k"]}', f'{e!r}')
    # ... or the application assigns a list while it is still empty, lets the model be sized once, and fills the list afterwards
    for f in shape:
        v = values.get(f['n'])
        if f['k'] == 'rep' and f['e']['k'] in ('uint', 'bytes') and v:
            try:
                kept = []
                m3 = make_instance(shape, dict(values, **{f['n']: []}), cls)
                setattr(m3, f['n'], kept)
                m3.encoded_length()
                kept.extend(to_lib(f, v))
                w3 = bytes(m3.encode())
                if w3 != ref:
                    bad('encode-bytes|list-filled-after-first-use', f'a list assigned empty to field {f["n"]}, then filled through the reference the application kept, '
                                                                    f'encodes to {w3[:24].hex()}.. ({len(w3)} B), the values give {ref[:24].hex()}.. ({len(ref)} B)')
            except Exception as e:  # noqa
                bad(f'encode-raises:{type(e).__name__}|list-filled-after-first-use', f'{e!r}')
    want = norm_values(shape, values)
    try:
        # what encode() itself returns (a writable buffer) must be readable as it is
        back0 = cls.parse(make_instance(shape, values, cls).encode())
        got0 = {f['n']: from_lib(f, getattr(back0, f['n'])) for f in shape}
        if got0 != want:
            bad('roundtrip|buffer-returned-by-encode', f'parse(m.encode()) fields {val_str(got0)} != {val_str(want)}')
    except Exception as e:  # noqa
        bad(f'parse-raises:{type(e).__name__}|buffer-returned-by-encode', f'parsing the buffer returned by encode() raised {e!r}')
    try:
        back = cls.parse(wire)
        got = {f['n']: from_lib(f, getattr(back, f['n'])) for f in shape}
        if got != want:
            bad('roundtrip', f'parse(encode(m)) fields {val_str(got)} != {val_str(want)}')
        elif not (back == make_instance(shape, want, cls)):       # (an absent boolean reads None, documented as equivalent to False)
            bad('roundtrip-eq', 'parse(encode(m)) != m by TlvModel.__eq__')
    except Exception as e:  # noqa
        bad(f'parse-raises:{type(e).__name__}', f'parsing the encoded model raised {e!r}')
        return 'parse-raises', viol
    if not deep or viol:
        return 'ok' if not viol else 'viol', viol
    # unknown / repeated / out-of-order elements at every gap of every nesting level
    for variant, gaps in insertion_variants(shape, values):
        kind, mutated, where = variant
        try:
            back = cls.parse(mutated)
            got = {f['n']: from_lib(f, getattr(back, f['n'])) for f in shape}
            if kind == 'noncrit':
                if got != want:
                    bad(f'unknown-noncritical-changes-parse|{where}', f'unknown non-critical element inserted {where} changed the result: {val_str(got)}')
            else:
                bad(f'{kind}-accepted|{where}', f'{kind} element {where} was accepted')
        except enc.DecodeError:
            if kind == 'noncrit':
                bad(f'unknown-noncritical-rejected|{where}', f'unknown non-critical element inserted {where} raised DecodeError')
        except Exception as e:  # noqa
            bad(f'{kind}-raises:{type(e).__name__}|{where}', f'{kind} element {where}: {e!r}')
    return 'ok' if not viol else 'viol', viol


def insertion_variants(shape, values):
    """yield ((kind, mutated wire, where-label), None)"""
    els = tw.elements(shape, values)
    parts = [b for b, _ in els]
    flds = [f for _, f in els]

    def emit(prefix_fn, parts, flds, level, ic):
        n = len(parts)
        for i in range(n + 1):
            pos = 'first' if i == 0 else ('last' if i == n else 'middle')
            ctx = ''
            if 0 < i < n and flds[i - 1] is not flds[i]:
                pass
            for unk in (UNK_NONCRIT, UNK_NONCRIT_BIG):
                yield ('noncrit', prefix_fn(b''.join(parts[:i] + [unk] + parts[i:])), f'L{level}:{pos}{gapctx(flds, i)}'), None
            if not ic:
                yield ('unknown-critical', prefix_fn(b''.join(parts[:i] + [UNK_CRIT] + parts[i:])), f'L{level}:{pos}'), None
        if not ic:
            for i in range(n):
                f = flds[i]
                t = ts.read_el(parts[i], 0, len(parts[i])).typ
                # duplicate of a critical element of a non-repeated field
                if t & 1 and not f.get('_rep'):
                    yield ('repeated-critical', prefix_fn(b''.join(parts[:i + 1] + [parts[i]] + parts[i + 1:])), f'L{level}'), None
                # out of order: an element moved behind a later declared field's element
                if i + 1 < n and t & 1 and flds[i + 1] is not f and not f.get('_rep') and not flds[i + 1].get('_rep') \
                        and f.get('_ord', 0) < flds[i + 1].get('_ord', 0):
                    sw = list(parts)
                    sw[i], sw[i + 1] = sw[i + 1], sw[i]
                    yield ('out-of-order-critical', prefix_fn(b''.join(sw)), f'L{level}'), None

    yield from emit(lambda b: b, parts, flds, 0, False)
    # one level down: inside every emitted sub-model element
    for i, (b, f) in enumerate(els):
        if f['k'] == 'model':
            el = ts.read_single(b)
            sub_vals = locate_sub_values(shape, values, i)
            if sub_vals is None:
                continue
            sub = tw.elements(f['fields'], sub_vals)
            annotate(f['fields'])
            sp = [x for x, _ in sub]
            sf = [g for _, g in sub]

            def pre(inner, i=i, f=f):
                return b''.join(parts[:i] + [ts.tlv(f['t'], inner)] + parts[i + 1:])
            yield from emit(pre, sp, sf, 1, f.get('ic', False))


def gapctx(flds, i):
    if 0 < i < len(flds) and flds[i - 1].get('_mapkey') and flds[i].get('_mapval'):
        return ':between-map-key-and-value'
    if 0 < i < len(flds) and flds[i - 1] is flds[i]:
        return ':inside-repeated-run'
    return ''


def annotate(shape):
    for o, f in enumerate(shape):
        f['_ord'] = o
        if f['k'] == 'rep':
            f['e']['_rep'] = True
            f['e']['_ord'] = o
        if f['k'] == 'map':
            f['key']['_rep'] = True
            f['key']['_mapkey'] = True
            f['val']['_rep'] = True
            f['val']['_mapval'] = True
            f['key']['_ord'] = f['val']['_ord'] = o


def locate_sub_values(shape, values, idx):
    """values dict of the sub-model that produced the idx-th emitted element"""
    k = 0
    for f in shape:
        v = values.get(f['n'])
        if f['k'] == 'rep':
            for x in (v or []):
                if tw.enc_field(f['e'], x):
                    if k == idx:
                        return x if f['e']['k'] == 'model' else None
                    k += 1
        elif f['k'] == 'map':
            for kk, vv in (v or []):
                if k == idx:
                    return None
                k += 1
                if k == idx:
                    return vv if f['val']['k'] == 'model' else None
                k += 1
        else:
            if tw.enc_field(f, v):
                if k == idx:
                    return v if f['k'] == 'model' else None
                k += 1
    return None


def kind_tag(f):
    k = f['k']
    if k == 'uint':
        return 'uint' + (str(f['fixed']) if f.get('fixed') else '')
    if k == 'rep':
        return 'rep-' + kind_tag(f['e'])
    if k == 'map':
        return f"map-{kind_tag(f['key'])}-{kind_tag(f['val'])}"
    return k


def shape_str(shape):
    return '[' + ', '.join(f"{f['n']}:{kind_tag(f)}@{f['t']:#x}" for f in shape) + ']'


def val_str(v):
    s = repr(v)
    return s if len(s) < 160 else s[:157] + '...'


# -- generated programs -------------------------------------------------------------------------------------
def program_shapes(tier):
    nmax = 3
    idx = 0
    for n in range(1, nmax + 1):
        for kinds in itertools.product(KINDS, repeat=n):
            idx += 1
            sh = shape_from_kinds(kinds, idx)
            if sh is not None:
                annotate(sh)
                yield sh
    if tier == 'thorough':
        # four fields over a reduced kind set
        red = ['uint', 'bool', 'text', 'name', 'rep-bytes', 'map-uint-bytes', 'model']
        for kinds in itertools.product(red, repeat=4):
            idx += 1
            sh = shape_from_kinds(kinds, idx)
            if sh is not None:
                annotate(sh)
                yield sh


def values_for(shape, tier):
    level = 0 if len(shape) <= 1 else 1
    menus = [menu(f, level, tier) for f in shape]
    for combo in itertools.product(*menus):
        yield dict(zip([f['n'] for f in shape], combo))


# -- inheritance patterns -----------------------------------------------------------------------------------
WARM_FAILURES = []


def inheritance_cases(warm=False):
    """warm: every base class is used (encode, length, parse) before the derived classes are - state that the machinery
    keeps per class must not be inherited by a subclass with another field list"""
    out = []

    class Base(tm.TlvModel):
        a = tm.UintField(0x81)
        b = tm.BytesField(0x82)

    class Linear(Base):
        _base = tm.IncludeBase(Base)
        c = tm.UintField(0x83)
    out.append(('linear', Linear, [{'n': 'a', 'k': 'uint', 't': 0x81}, {'n': 'b', 'k': 'bytes', 't': 0x82}, {'n': 'c', 'k': 'uint', 't': 0x83}]))

    class Front(Base):
        c = tm.UintField(0x7F)
        _base = tm.IncludeBase(Base)
    out.append(('derived-first', Front, [{'n': 'c', 'k': 'uint', 't': 0x7F}, {'n': 'a', 'k': 'uint', 't': 0x81}, {'n': 'b', 'k': 'bytes', 't': 0x82}]))

    class A(tm.TlvModel):
        a = tm.UintField(0x01)

    class B(A):
        _a = tm.IncludeBase(A)
        b = tm.UintField(0x03)

    class C(A):
        _a = tm.IncludeBase(A)
        c = tm.UintField(0x05)

    class D(B, C):
        _b = tm.IncludeBase(B)
        _c = tm.IncludeBase(C)
        d = tm.UintField(0x07)
    out.append(('diamond', D, [{'n': 'a', 'k': 'uint', 't': 1}, {'n': 'b', 'k': 'uint', 't': 3}, {'n': 'c', 'k': 'uint', 't': 5}, {'n': 'd', 'k': 'uint', 't': 7}]))

    class Override(Base):
        _base = tm.IncludeBase(Base)
        a = tm.BytesField(0x91, is_string=True)      # overrides in place: stays first
    out.append(('override-in-place', Override, [{'n': 'a', 'k': 'text', 't': 0x91}, {'n': 'b', 'k': 'bytes', 't': 0x82}]))

    class FrontOverride(Base):
        c = tm.UintField(0x7F)
        _base = tm.IncludeBase(Base)
        b = tm.BytesField(0x92)                        # overrides an included field that is not at the position it has in Base
    out.append(('derived-first-override', FrontOverride, [{'n': 'c', 'k': 'uint', 't': 0x7F}, {'n': 'a', 'k': 'uint', 't': 0x81}, {'n': 'b', 'k': 'bytes', 't': 0x92}]))

    class MidOverride(Base):
        c = tm.UintField(0x7D)
        d = tm.UintField(0x7F)
        _base = tm.IncludeBase(Base)
        e = tm.UintField(0x85)
        a = tm.UintField(0x93)                         # overrides the first included field, which sits at index 2 here
    out.append(('include-in-the-middle-override', MidOverride, [{'n': 'c', 'k': 'uint', 't': 0x7D}, {'n': 'd', 'k': 'uint', 't': 0x7F},
                                                                 {'n': 'a', 'k': 'uint', 't': 0x93}, {'n': 'b', 'k': 'bytes', 't': 0x82},
                                                                 {'n': 'e', 'k': 'uint', 't': 0x85}]))

    class P(tm.TlvModel):
        p = tm.UintField(0x01)

    class TwoBases(P, Base):
        _p = tm.IncludeBase(P)
        x = tm.UintField(0x03)
        _base = tm.IncludeBase(Base)
        b = tm.BytesField(0x95)
    out.append(('two-includes-override', TwoBases, [{'n': 'p', 'k': 'uint', 't': 1}, {'n': 'x', 'k': 'uint', 't': 3}, {'n': 'a', 'k': 'uint', 't': 0x81},
                                                     {'n': 'b', 'k': 'bytes', 't': 0x95}]))

    class NoInclude(Base):
        c = tm.UintField(0x83)                         # base fields are not included without IncludeBase
    out.append(('no-include', NoInclude, [{'n': 'c', 'k': 'uint', 't': 0x83}]))
    if warm:
        for cls in (Base, A, B, C):
            m = cls()
            for f in cls._encoded_fields:
                setattr(m, f.name, 5 if isinstance(f, tm.UintField) else b'w')
            try:
                w = m.encode()
                m.encoded_length()
                back = cls.parse(w)
                cls.parse(b'')
                if back != m:
                    WARM_FAILURES.append((f'C08|inherit:base-{cls.__name__}|roundtrip', f'{cls.__name__}: parse(encode(m)) != m'))
            except Exception as e:  # noqa
                WARM_FAILURES.append((f'C08|inherit:base-{cls.__name__}|raises:{type(e).__name__}', f'{cls.__name__} encode/parse: {e!r}'))
        out = [(n + '+bases-used-first', c, sh) for n, c, sh in out]
    return out


# -- shipped models (shape by reflection) ----------------------------------------------------------------------
def reflect_field(fld, name):
    if isinstance(fld, (tm.SignatureValueField, tm.InterestNameField)):
        raise NotImplementedError
    if isinstance(fld, tm.ProcedureArgument):
        return None
    if isinstance(fld, tm.UintField):
        f = {'n': name, 'k': 'uint', 't': fld.type_num}
        if fld.fixed_len:
            f['fixed'] = fld.fixed_len
        if fld.val_base_type is not int:
            f['enum'] = sorted({m.value for m in fld.val_base_type})
        return f
    if isinstance(fld, tm.BoolField):
        return {'n': name, 'k': 'bool', 't': fld.type_num}
    if isinstance(fld, tm.BytesField):
        return {'n': name, 'k': 'text' if fld.is_string else 'bytes', 't': fld.type_num}
    if isinstance(fld, tm.NameField):
        return {'n': name, 'k': 'name', 't': 7}
    if isinstance(fld, tm.ModelField):
        return {'n': name, 'k': 'model', 't': fld.type_num, 'fields': reflect(fld.model_type), 'ic': fld.ignore_critical, 'cls': fld.model_type}
    if isinstance(fld, tm.RepeatedField):
        return {'n': name, 'k': 'rep', 't': fld.type_num, 'e': reflect_field(fld.element_type, None)}
    if isinstance(fld, tm.MapField):
        return {'n': name, 'k': 'map', 't': fld.type_num, 'key': reflect_field(fld.key_type, None), 'val': reflect_field(fld.value_type, None)}
    raise NotImplementedError(type(fld).__name__)


def reflect(cls):
    out = []
    for fld in cls._encoded_fields:
        f = reflect_field(fld, fld.name)
        if f is not None:
            out.append(f)
    return out


def shipped_models():
    import ndn.app_support.nfd_mgmt as nfd
    import ndn.encoding.ndnlp_v2 as lp
    import ndn.app_support.light_versec.binary as lvs
    import ndn.app_support.svs.tlv as svs
    import ndn.app_support.security_v2 as sv2
    import ndn.encoding.ndn_format_0_3 as f03
    mods = [nfd, lp, lvs, svs, sv2, f03]
    seen = []
    for mod in mods:
        for nm in sorted(vars(mod)):
            obj = getattr(mod, nm)
            if isinstance(obj, type) and issubclass(obj, tm.TlvModel) and obj is not tm.TlvModel and obj.__module__ == mod.__name__:
                try:
                    sh = reflect(obj)
                except NotImplementedError:
                    continue
                if sh:
                    seen.append((f'{mod.__name__.split(".")[-1]}.{nm}', obj, sh))
    return seen


def make_instance_cls(cls, shape, values):
    """instantiate a shipped class (sub-models use their own classes)"""
    m = cls.__new__(cls)
    m.__dict__ = {}
    for f in shape:
        v = values.get(f['n'])
        setattr(m, f['n'], to_lib_cls(f, v if f['k'] not in ('rep', 'map') else (v or [])))
    return m


def to_lib_cls(f, v):
    k = f['k']
    if v is None:
        return None
    if k == 'model':
        return make_instance_cls(f['cls'], f['fields'], v)
    if k == 'rep':
        return [to_lib_cls(f['e'], x) for x in v]
    if k == 'map':
        return {kk: to_lib_cls(f['val'], vv) for kk, vv in v}
    if k == 'name':
        return [bytes(c) for c in v]
    return v


def shipped_value(f, rot, depth=0):
    """a boundary value for field f chosen by rotation"""
    k = f['k']
    if k == 'model':
        if depth > 3:
            return {}
        return {g['n']: shipped_value(g, rot + i + 1, depth + 1) for i, g in enumerate(f['fields']) if (rot + i) % 4 != 3}
    if k == 'rep':
        return [shipped_value(f['e'], rot + j, depth + 1) for j in range(rot % 3)]
    if k == 'map':
        keys = [x for x in menu(f['key'], 0, 'quick') if x is not None]
        out, seen = [], set()
        for j in range(rot % 3):
            kk = keys[(rot + j) % len(keys)]
            if kk not in seen:
                seen.add(kk)
                out.append((kk, shipped_value(f['val'], rot + j, depth + 1)))
        return out
    m = [x for x in menu(f, 0, 'quick') if x is not None and x is not False]
    return m[rot % len(m)]


def shipped_cases(name, cls, shape, tier):
    n = len(shape)
    if n <= 10:
        masks = range(1 << n)
    else:
        masks = [m for m in range(1 << n) if bin(m).count('1') <= 2 or bin(m).count('1') >= n - 1] if n <= 20 else \
            [0, (1 << n) - 1] + [1 << i for i in range(n)] + [((1 << n) - 1) ^ (1 << i) for i in range(n)]
    nrot = 3 if tier == 'quick' else 9
    for mask in masks:
        for rot in range(nrot):
            vals = {}
            for i, f in enumerate(shape):
                if mask >> i & 1:
                    vals[f['n']] = shipped_value(f, rot + i)
            yield vals


def check_shipped(name, cls, shape, values):
    viol = []
    ref = tw.enc_model(shape, values)

    def bad(clause, what):
        viol.append((f'C08|shipped:{name}|{clause}', f'{what}; values {val_str(values)}'))
    try:
        m = make_instance_cls(cls, shape, values)
        n = m.encoded_length()
        wire = bytes(m.encode())
    except Exception as e:  # noqa
        bad(f'encode-raises:{type(e).__name__}', f'{e!r}')
        return viol
    if wire != ref:
        bad('encode-bytes', f'encode() = {wire[:24].hex()}.. ({len(wire)} B), declared shape gives {ref[:24].hex()}.. ({len(ref)} B)')
        return viol
    if n != len(ref):
        bad('encoded-length', f'{n} != {len(ref)}')
    try:
        back = cls.parse(wire)
        got = {f['n']: from_lib(f, getattr(back, f['n'])) for f in shape}
        want = norm_values(shape, values)
        if got != want:
            bad('roundtrip', f'parsed {val_str(got)} != {val_str(want)}')
    except Exception as e:  # noqa
        bad(f'parse-raises:{type(e).__name__}', f'{e!r}')
    return viol


UNSET = '<never assigned>'
DEFAULT_FIELDS = [
    # (field description, default as the reference sees it, assigned values: UNSET / absent / falsy / ordinary)
    ({'k': 'uint', 't': 1, 'default_lib': 5}, 5, [UNSET, None, 0, 7]),
    ({'k': 'uint', 't': 0x80, 'fixed': 2, 'default_lib': 0x1234}, 0x1234, [UNSET, None, 0, 1]),
    ({'k': 'bytes', 't': 2, 'default_lib': b'xy'}, b'xy', [UNSET, None, b'', b'q']),
    ({'k': 'text', 't': 253, 'default_lib': 'de'}, 'de', [UNSET, None, '', 't']),
    ({'k': 'name', 't': 7, 'default_lib': [C1, C3]}, [C1, C3], [UNSET, None, [], [C2]]),
    ({'k': 'bool', 't': 3, 'default_lib': True}, True, [UNSET, None, False, True]),
]


def default_cases():
    """models of one and two fields declared with a default: every combination of never assigned / assigned None / assigned a falsy
    value / assigned an ordinary value.  The value that counts is the assigned one when there was an assignment, else the default."""
    for (f1, d1, m1), (f2, d2, m2) in itertools.product(DEFAULT_FIELDS, repeat=2):
        if f1 is f2 and f1['k'] != 'uint':
            continue
        a, b = dict(f1, n='p'), dict(f2, n='q', t=f2['t'] + 8 if f2['k'] != 'name' else 7)
        if a['k'] == 'name' and b['k'] == 'name':
            continue
        for v1, v2 in itertools.product(m1, m2):
            yield [a, b], {'p': v1, 'q': v2}, {'p': d1 if v1 is UNSET else v1, 'q': d2 if v2 is UNSET else v2}


def check_default_case(shape, given, effective):
    viol = []
    ref = tw.enc_model(shape, effective)

    def bad(clause, what):
        viol.append((f'C08|defaults|{clause}', f'{what}; fields {shape_str(shape)} assigned {val_str(given)} '
                                               f'(a field never assigned counts with its declared default)'))
    try:
        cls = build_class(shape)
        m = cls()
        for f in shape:
            if given[f['n']] is not UNSET:
                setattr(m, f['n'], to_lib(f, given[f['n']]))
        n = m.encoded_length()
        wire = bytes(m.encode())
    except Exception as e:  # noqa
        bad(f'encode-raises:{type(e).__name__}', f'encoding raised {e!r}')
        return 'encode-raises', viol
    if wire != ref:
        bad('encode-bytes', f'encode() = {wire.hex()} but the assigned / default values give {ref.hex()}')
        return 'encode-differs', viol
    if n != len(ref):
        bad('encoded-length', f'encoded_length() = {n}, actual size {len(ref)}')
    try:
        back = cls.parse(wire)
        for f in shape:
            # an element that is on the wire reads back as written (an absent one reads as the default again: no claim)
            if tw.enc_model([f], {f['n']: effective[f['n']]}):
                got = from_lib(f, getattr(back, f['n']))
                if got != norm_value(f, effective[f['n']]):
                    bad('roundtrip', f'field {f["n"]} reads back {val_str(got)}')
    except Exception as e:  # noqa
        bad(f'parse-raises:{type(e).__name__}', f'parsing the encoded model raised {e!r}')
    return ('ok' if not viol else 'viol'), viol


def order_units():
    """shipped models related by inheritance, exercised one after the other in one process, in both orders"""
    sm = shipped_models()
    out = []
    for i, (n1, c1, _) in enumerate(sm):
        for j, (n2, c2, _) in enumerate(sm):
            if i != j and issubclass(c2, c1):
                out.append({'kind': 'order', 'first': i, 'second': j, 'names': [n1, n2], 'tier': 'quick'})
                out.append({'kind': 'order', 'first': j, 'second': i, 'names': [n2, n1], 'tier': 'quick'})
    return out


# -- plan / unit / replay -------------------------------------------------------------------------------------
def plan(tier, seed):
    shapes = list(program_shapes(tier))
    units = []
    chunk = 20
    for lo in range(0, len(shapes), chunk):
        units.append({'kind': 'programs', 'lo': lo, 'hi': min(len(shapes), lo + chunk), 'tier': tier})
    units.append({'kind': 'inherit', 'tier': tier})
    units.append({'kind': 'inherit', 'tier': tier, 'warm': True})
    units.append({'kind': 'defaults', 'tier': tier})
    units += order_units()
    sm = shipped_models()
    for i, (name, cls, sh) in enumerate(sm):
        units.append({'kind': 'shipped', 'idx': i, 'name': name, 'tier': tier})
    return {
        'units': units,
        'rule': 'programs: one case = (model shape, value assignment) plus, for every case, one sub-case per gap/variant of inserted, '
                'repeated or reordered element; shipped: (model, field-presence subset, value rotation). Distinct by construction. '
                'Non-trivial = a case with at least one container field (model / repeated / map) or a multi-byte type or length number.',
        'bounds': {'program_shapes': len(shapes), 'fields_per_model': '1..3' if tier == 'quick' else '1..3 (+4 over 7 kinds)',
                   'kinds': KINDS, 'type_numbers': TYPE_MENU, 'shipped_models': [n for n, _, _ in sm], 'nesting_depth': 2},
        'assumptions': ['NameField with a custom type_number is outside the enumeration (documented as always TYPE_NAME)',
                        'out-of-order / repeated non-critical (even-typed) declared elements carry no claim'],
    }


def unit(arg):
    acc = Acc()
    acc.state_hashes = None
    tier = arg['tier']
    if arg['kind'] == 'programs':
        shapes = list(program_shapes(tier))[arg['lo']:arg['hi']]
        for sh in shapes:
            nontriv = any(f['k'] in ('model', 'rep', 'map') or f['t'] > 252 for f in sh)
            for vals in values_for(sh, tier):
                key, viol = check_case(sh, vals, tier)
                acc.evaluations += 1
                acc.state_count += 1
                acc.transitions += 3
                if nontriv:
                    acc.nontrivial += 1
                acc.outcome(f"programs|n={len(sh)}|{key}")
                acc.observe([shape_str(sh), val_str(vals), sorted({v[0] for v in viol})])
                for sig, what in viol:
                    acc.violation(sig, what, {'kind': 'programs', 'tier': tier, 'shape_kinds': [kind_tag(f) for f in sh],
                                              'lo': arg['lo'], 'hi': arg['hi'], 'sig': sig})
            acc.sample({'shape': shape_str(sh), 'last_values': val_str(vals)})
    elif arg['kind'] == 'inherit':
        for name, cls, sh in inheritance_cases(arg.get('warm', False)):
            annotate(sh)
            _CLS[repr(sh)] = cls
            for vals in values_for(sh, tier):
                key, viol = check_case(sh, vals, tier, deep=False)
                acc.evaluations += 1
                acc.state_count += 1
                acc.nontrivial += 1
                acc.outcome(f'inherit|{name}|{key}')
                acc.observe([name, val_str(vals), sorted({v[0] for v in viol})])
                for sig, what in viol:
                    acc.violation(sig.replace('C08|', f'C08|inherit:{name}|'), what, {'kind': 'inherit', 'tier': tier, 'warm': arg.get('warm', False)})
        for sig, what in WARM_FAILURES:
            acc.violation(sig, what, {'kind': 'inherit', 'tier': tier, 'warm': True})
        del WARM_FAILURES[:]
        acc.sample({'inheritance_patterns': [n for n, _, _ in inheritance_cases()]})
        del WARM_FAILURES[:]
    elif arg['kind'] == 'defaults':
        for sh, given, eff in default_cases():
            key, viol = check_default_case(sh, given, eff)
            acc.evaluations += 1
            acc.state_count += 1
            acc.nontrivial += 1
            acc.outcome(f'defaults|{key}')
            acc.observe([shape_str(sh), val_str(given), sorted({v[0] for v in viol})])
            for sig, what in viol:
                acc.violation(sig, what, {'kind': 'defaults', 'tier': tier})
        acc.sample({'default_fields': [kind_tag(f) for f, _, _ in DEFAULT_FIELDS]})
    elif arg['kind'] == 'order':
        sm = shipped_models()
        for idx in (arg['first'], arg['second']):
            name, cls, sh = sm[idx]
            for vals in itertools.islice(shipped_cases(name, cls, sh, 'quick'), 0, 40):
                viol = check_shipped(name, cls, sh, vals)
                acc.evaluations += 1
                acc.state_count += 1
                acc.transitions += 2
                acc.nontrivial += 1
                acc.outcome(f"order|{'>'.join(arg['names'])}|{'ok' if not viol else 'viol'}")
                acc.observe([name, val_str(vals), sorted({v[0] for v in viol})])
                for sig, what in viol:
                    acc.violation(sig + '|after:' + (arg['names'][0] if idx == arg['second'] else '-'), what,
                                  {'kind': 'order', 'first': arg['first'], 'second': arg['second'], 'names': arg['names']})
        acc.sample({'order': arg['names']})
    else:
        name, cls, sh = shipped_models()[arg['idx']]
        for vals in shipped_cases(name, cls, sh, tier):
            viol = check_shipped(name, cls, sh, vals)
            acc.evaluations += 1
            acc.state_count += 1
            acc.transitions += 2
            if len(vals) not in (0, len(sh)):
                acc.nontrivial += 1
            acc.outcome(f"shipped|{name}|{'ok' if not viol else 'viol'}")
            acc.observe([name, val_str(vals), sorted({v[0] for v in viol})])
            for sig, what in viol:
                acc.violation(sig, what, {'kind': 'shipped', 'idx': arg['idx'], 'name': name, 'tier': tier})
        acc.sample({'shipped': name, 'fields': [f['n'] for f in sh], 'last_values': val_str(vals)})
    return acc


def replay(case):
    if case['kind'] == 'programs':
        acc = unit({'kind': 'programs', 'lo': case['lo'], 'hi': case['hi'], 'tier': case['tier']})
        return [{'sig': s, 'what': v[0]['what']} for s, v in acc.violations.items() if s == case.get('sig', s)]
    if case['kind'] == 'order':
        acc = unit({'kind': 'order', 'first': case['first'], 'second': case['second'], 'names': case['names'], 'tier': 'quick'})
        return [{'sig': s, 'what': v[0]['what']} for s, v in acc.violations.items()]
    if case['kind'] == 'defaults':
        acc = unit({'kind': 'defaults', 'tier': case['tier']})
        return [{'sig': s, 'what': v[0]['what']} for s, v in acc.violations.items()]
    if case['kind'] == 'inherit':
        acc = unit({'kind': 'inherit', 'tier': case['tier'], 'warm': case.get('warm', False)})
    else:
        acc = unit({'kind': 'shipped', 'idx': case['idx'], 'name': case['name'], 'tier': case['tier']})
    return [{'sig': s, 'what': v[0]['what']} for s, v in acc.violations.items()]
