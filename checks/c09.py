"""
C09 - name representations (URI, component list, wire) are mutually consistent.

E-input, complete enumeration of:
  types  : every component type 1..65535 x values {empty, 'a', 0xff}
  bytes  : every 1-byte and every 2-byte value under types {8, 32, 253, 65535}; each of the 256 byte values escaped alone
  vlen   : value lengths 0..300, 65535, 65536 of literal / escaped / mixed content (length field of the component and
           of the URI text crossing 253)
  numbers: naming-convention types x numbers 0..70000 and 2^k-1, 2^k, 2^k+1 (k<=64)
  names  : all names of 0..3 components over a 10-component menu and 0..8 over {a, empty}, in every accepted input form
  pairs  : all ordered pairs of the <=3 space: prefix test vs list prefix, <, <=, == vs NDN canonical order
Oracles are written from the documented URI format and the canonical order definition (type, length, value).
"""
from __future__ import annotations

import itertools

from ndn.encoding import Name, Component

from mc.core import Acc
from mc.ref import tlv_strict as ts

PROPERTY = 'C09'

UNRESERVED = set(b'ABCDEFGHIJKLMNOPQRSTUVWXYZabcdefghijklmnopqrstuvwxyz0123456789-._~')
CONV = {0x32: 'seg', 0x34: 'off', 0x36: 'v', 0x38: 't', 0x3A: 'seq'}


def ref_value_uri(v: bytes) -> str:
    return ''.join(chr(b) if b in UNRESERVED else f'%{b:02X}' for b in v)


def ref_canonical(t: int, v: bytes) -> str:
    return ('' if t == 8 else f'{t}=') + ref_value_uri(v)


def ref_to_str(t: int, v: bytes) -> str:
    if t == 1:
        return 'sha256digest=' + v.hex()
    if t == 2:
        return 'params-sha256=' + v.hex()
    if t in CONV and len(v) <= 8:
        # (the numbers of the naming conventions have at most 8 bytes; a longer value is not a number and is written generically)
        return f'{CONV[t]}={int.from_bytes(v, "big")}'
    return ref_canonical(t, v)


def canonical_number(v: bytes) -> bool:
    n = int.from_bytes(v, 'big')
    return len(v) in (1, 2, 4, 8) and v == ts.uint(n)


def key(c: bytes):
    e = ts.read_single(c)
    return (e.typ, e.length, e.value)


def check_component(t, v, viol, tag):
    """all single-component round trips; returns the library's encoded component"""
    exp = ts.tlv(t, v)
    try:
        c = Component.from_bytes(v, t)
    except Exception as e:  # noqa
        viol.append((f'C09|{tag}|from_bytes-raises:{type(e).__name__}', f'type {t} value {v[:8].hex()} len {len(v)}: {e!r}'))
        return None
    if bytes(c) != exp:
        viol.append((f'C09|{tag}|from_bytes-wire', f'type {t} len {len(v)}: {bytes(c)[:12].hex()} != {exp[:12].hex()}'))
        return None
    try:
        if Component.get_type(c) != t or bytes(Component.get_value(c)) != v:
            viol.append((f'C09|{tag}|get_type/get_value', f'type {t} len {len(v)}'))
        cu = Component.to_canonical_uri(c)
        if cu != ref_canonical(t, v):
            viol.append((f'C09|{tag}|canonical-uri-text', f'type {t} value {v[:8].hex()}: {cu[:40]!r} != {ref_canonical(t, v)[:40]!r}'))
        back = Component.from_str(cu)
        if bytes(back) != exp:
            viol.append((f'C09|{tag}|canonical-uri-roundtrip', f'type {t} value {v[:8].hex()} len {len(v)}: from_str(to_canonical_uri) = {bytes(back)[:12].hex()}'))
        su = Component.to_str(c)
        if su != ref_to_str(t, v):
            viol.append((f'C09|{tag}|uri-text', f'type {t} value {v[:8].hex()}: {su[:40]!r} != {ref_to_str(t, v)[:40]!r}'))
        if t not in CONV or canonical_number(v) or len(v) > 8:
            back = Component.from_str(su)
            if bytes(back) != exp:
                viol.append((f'C09|{tag}|uri-roundtrip', f'type {t} value {v[:8].hex()} len {len(v)}: from_str(to_str) = {bytes(back)[:12].hex()}'))
        # wire round trip through a one-component name
        nm = Name.from_bytes(Name.to_bytes([c]))
        if [bytes(x) for x in nm] != [exp]:
            viol.append((f'C09|{tag}|wire-roundtrip', f'type {t} len {len(v)}: {[bytes(x)[:10].hex() for x in nm]}'))
    except Exception as e:  # noqa
        viol.append((f'C09|{tag}|raises:{type(e).__name__}', f'type {t} value {v[:8].hex()} len {len(v)}: {e!r}'))
    return c


# -- name menu ---------------------------------------------------------------------------------------------
MENU = {
    'a': (8, b'a'), 'B': (8, b'B'), 'E': (8, b''), 'R': (8, b'%=/.'), 'D': (8, b'..'), 'I': (1, bytes(range(32))),
    'P': (2, b'\xee' * 32), 'S': (0x32, b'\x05'), 'T': (65535, b'x'), 'F': (253, b'\x00\xff'),
}


# components that take the value of a name across the sizes at which its own length field grows (252 / 253 bytes and beyond)
LONG_MENU = {'L': (8, b'L' * 247), 'M': (8, b'm' * 253), 'N': (0x32, b'\x01' * 120), 'p': (8, b'...'), 'q': (8, b'....'), 'r': (8, b'.')}
RAW_TEXTS = ['e\u0301', '\u212b', 'caf\u00e9', '\u1100\u1161', 'A\u030a\u0323', '\ufb01']     # not in Unicode normal form C (and one that is)
MENU_ALL = dict(MENU, **LONG_MENU)


def name_forms(toks):
    """every accepted input form of the same name: (label, value)"""
    MENU = MENU_ALL  # noqa
    comps = [ts.tlv(*MENU[t]) for t in toks]
    uri_parts = [ref_to_str(*MENU[t]) for t in toks]
    uri = '/' + '/'.join(uri_parts) + ('/' if toks and toks[-1] == 'E' else '')
    curi = '/' + '/'.join(ref_canonical(*MENU[t]) for t in toks) + ('/' if toks and toks[-1] == 'E' else '')
    wire = ts.tlv(7, b''.join(comps))
    forms = [('list-bytes', [bytes(c) for c in comps]), ('list-bytearray', [bytearray(c) for c in comps]),
             ('uri', uri), ('canonical-uri', curi), ('wire-bytes', wire), ('wire-memoryview', memoryview(bytearray(wire))),
             ('mixed', [uri_parts[i] if i % 2 == 0 else comps[i] for i in range(len(toks))]),
             ('iterator', iter([bytes(c) for c in comps]))]
    mixed = forms[6][1]
    forms += [('tuple-mixed', tuple(mixed)), ('generator-mixed', (x for x in list(mixed))), ('map-mixed', map(lambda x: x, list(mixed))),
              ('mixed-odd', [uri_parts[i] if i % 2 == 1 else comps[i] for i in range(len(toks))]),
              ('generator-text', (x for x in list(uri_parts)))]
    if uri_parts and toks[0] != 'E':      # without the leading slash a first empty component would be ambiguous
        forms.append(('uri-no-leading-slash', uri[1:]))
    return comps, uri, curi, wire, forms


def check_name(toks, viol):
    comps, uri, curi, wire, forms = name_forms(toks)
    try:
        for label, f in forms:
            n = Name.normalize(f)
            if [bytes(c) for c in n] != comps:
                viol.append((f'C09|names|normalize:{label}', f'name {toks}: normalize({label}) = {[bytes(c).hex()[:12] for c in n]}'))
        n = [bytearray(c) for c in comps]
        if Name.to_str(n) != uri:
            viol.append(('C09|names|to_str-text', f'name {toks}: {Name.to_str(n)!r} != {uri!r}'))
        if Name.to_canonical_uri(n) != curi:
            viol.append(('C09|names|canonical-text', f'name {toks}: {Name.to_canonical_uri(n)!r} != {curi!r}'))
        if [bytes(c) for c in Name.from_str(Name.to_str(n))] != comps:
            viol.append(('C09|names|uri-roundtrip', f'name {toks}: from_str(to_str(n)) differs'))
        if [bytes(c) for c in Name.from_str(Name.to_canonical_uri(n))] != comps:
            viol.append(('C09|names|canonical-roundtrip', f'name {toks}: from_str(to_canonical_uri(n)) differs'))
        if Name.to_bytes(n) != wire or Name.to_bytes(uri) != wire or Name.to_bytes(wire) != wire:
            viol.append(('C09|names|to_bytes', f'name {toks}: to_bytes differs between forms'))
        if [bytes(c) for c in Name.from_bytes(wire)] != comps:
            viol.append(('C09|names|wire-roundtrip', f'name {toks}: from_bytes(to_bytes(n)) differs'))
        if Name.encoded_length(n) != len(wire):
            viol.append(('C09|names|encoded_length', f'name {toks}'))
        # every leading part is a prefix, in every pairing of the encoded / list / text forms; a longer name is not
        for k in range(len(toks) + 1):
            pw = ts.tlv(7, b''.join(comps[:k]))
            for lf, rf, lab in ((pw, wire, 'wire,wire'), (bytearray(pw), memoryview(wire), 'bytearray,memoryview'), (pw, list(comps), 'wire,list'),
                                (list(comps[:k]), wire, 'list,wire')):
                if Name.is_prefix(lf, rf) is not True:
                    viol.append((f'C09|names|is_prefix:{lab}', f'name {toks}: its first {k} components are not reported as a prefix'))
                if k < len(toks) and Name.is_prefix(rf, lf) is not False:
                    viol.append((f'C09|names|is_prefix-reversed:{lab}', f'name {toks}: reported as a prefix of its own first {k} components'))
    except Exception as e:  # noqa
        viol.append((f'C09|names|raises:{type(e).__name__}', f'name {toks}: {e!r}'))


def all_names(menu, max_len):
    for n in range(max_len + 1):
        yield from itertools.product(menu, repeat=n)


SPACE3 = list(all_names(list(MENU), 3))


# menu tokens whose component can be written as a plain text element of a list-form name
TEXT_OF = {'a': 'a', 'B': 'B', 'E': '', 'D': '..'}


def check_pairs(lo, hi, acc, viol):
    names = SPACE3
    enc_cache = {}

    def enc(t):
        if t not in enc_cache:
            enc_cache[t] = ([Component.from_bytes(MENU[x][1], MENU[x][0]) for x in t],
                            [key(ts.tlv(*MENU[x])) for x in t])
        return enc_cache[t]
    for i in range(lo, hi):
        a = names[i]
        la, ka = enc(a)
        ua = Name.to_str(la)
        for j, b in enumerate(names):
            lb, kb = enc(b)
            acc.evaluations += 1
            exp_prefix = len(a) <= len(b) and tuple(b[:len(a)]) == a
            form = (i + j) % 5
            try:
                if form == 3:
                    # the documented list form with text elements (mixed with wire elements)
                    got = Name.is_prefix([TEXT_OF[x] if x in TEXT_OF and k % 2 == 0 else bytes(c) for k, (x, c) in enumerate(zip(a, la))], lb)
                elif form == 4:
                    got = Name.is_prefix(la, [TEXT_OF[x] if x in TEXT_OF else bytes(c) for x, c in zip(b, lb)])
                else:
                    got = Name.is_prefix(la, lb) if form == 0 else (Name.is_prefix(ua, lb) if form == 1 else Name.is_prefix(Name.to_bytes(la), Name.to_str(lb)))
                if bool(got) != exp_prefix:
                    viol.append(('C09|pairs|is_prefix', f'is_prefix({a}, {b}) = {got}, list prefix = {exp_prefix} (form {form})'))
                if (la < lb) != (ka < kb) or (la <= lb) != (ka <= kb) or (la == lb) != (ka == kb):
                    viol.append(('C09|pairs|name-order', f'{a} vs {b}: library <,<=,== = {(la < lb, la <= lb, la == lb)}; canonical = {(ka < kb, ka <= kb, ka == kb)}'))
            except Exception as e:  # noqa
                viol.append((f'C09|pairs|raises:{type(e).__name__}', f'{a} vs {b}: {e!r}'))
            if exp_prefix and a != b:
                acc.nontrivial += 1
    # component order over the menu plus boundary-typed components
    return


def component_order(viol, acc):
    pool = []
    for t in (1, 2, 8, 32, 252, 253, 254, 65535):
        for v in (b'', b'\x00', b'a', b'b', b'aa', b'\xff', b'a' * 252, b'a' * 253, b'\x00' * 253):
            pool.append((t, v))
    encs = [(Component.from_bytes(v, t), (t, len(v), v)) for t, v in pool]
    for (ca, ka), (cb, kb) in itertools.product(encs, repeat=2):
        acc.evaluations += 1
        if (ca < cb) != (ka < kb) or (ca == cb) != (ka == kb) or (ca <= cb) != (ka <= kb):
            viol.append(('C09|pairs|component-order', f'{ka[:2]}+{ka[2][:4].hex()} vs {kb[:2]}+{kb[2][:4].hex()}: library {(ca < cb, ca == cb)} canonical {(ka < kb, ka == kb)}'))
            return


NUMBERS = sorted(set(range(0, 70001)) | {x for k in range(65) for x in (2 ** k - 1, 2 ** k, 2 ** k + 1) if 0 <= x < 2 ** 64})


def plan(tier, seed):
    units = []
    for lo in range(1, 65536, 4096):
        units.append({'kind': 'types', 'lo': lo, 'hi': min(65536, lo + 4096)})
    for t in (8, 32, 253, 65535):
        for lo in range(0, 65536, 16384):
            units.append({'kind': 'bytes2', 't': t, 'lo': lo, 'hi': lo + 16384})
    units.append({'kind': 'bytes1'})
    if tier == 'thorough':
        # every 3-byte value under the generic type (escaping decisions depend on neighbours only through '.' runs)
        for lo in range(0, 1 << 24, 1 << 16):
            units.append({'kind': 'bytes3', 't': 8, 'lo': lo, 'hi': lo + (1 << 16)})
    units.append({'kind': 'vlen'})
    for lo in range(0, len(NUMBERS), 12000):
        units.append({'kind': 'numbers', 'lo': lo, 'hi': min(len(NUMBERS), lo + 12000)})
    units.append({'kind': 'names'})
    units.append({'kind': 'alias'})
    step = 52 if tier == 'thorough' else 52
    for lo in range(0, len(SPACE3), step):
        units.append({'kind': 'pairs', 'lo': lo, 'hi': min(len(SPACE3), lo + step)})
    return {
        'units': units,
        'rule': 'complete enumeration of the sub-spaces listed in the module docstring; distinct by construction. Non-trivial = '
                'component type in 3-byte form, value needing percent-escapes, typed number, empty component, or a pair in proper '
                'prefix relation.',
        'bounds': {'types': '1..65535', 'one_and_two_byte_values': 'all, under 4 types', 'three_byte_values': 'all 2^24 under type 8' if tier == 'thorough' else 'thorough tier only', 'numbers': len(NUMBERS),
                   'names3': len(SPACE3), 'names8': 511, 'pairs': len(SPACE3) ** 2, 'value_lengths': '0..300, 65535, 65536'},
        'assumptions': ['URI format as documented by the library (empty component written as nothing between two slashes, not "...")',
                        'ordering is claimed for library-produced bytearray components and lists of them (memoryviews do not support <)'],
    }


def unit(arg):
    acc = Acc()
    acc.state_hashes = None
    viol = []
    k = arg['kind']
    if k == 'types':
        for t in range(arg['lo'], arg['hi']):
            for v in (b'', b'a', b'\xff'):
                check_component(t, v, viol, 'types')
                acc.evaluations += 1
                if t > 252:
                    acc.nontrivial += 1
        acc.sample({'types': [arg['lo'], arg['hi']], 'values': ['', 'a', 'ff']})
    elif k == 'bytes2':
        t = arg['t']
        for x in range(arg['lo'], arg['hi']):
            v = x.to_bytes(2, 'big')
            check_component(t, v, viol, 'bytes')
            acc.evaluations += 1
            if any(b not in UNRESERVED for b in v):
                acc.nontrivial += 1
        acc.sample({'type': t, 'two_byte_values': [arg['lo'], arg['hi']]})
    elif k == 'bytes3':
        t = arg['t']
        for x in range(arg['lo'], arg['hi']):
            v = x.to_bytes(3, 'big')
            check_component(t, v, viol, 'bytes')
            acc.evaluations += 1
            if any(b not in UNRESERVED for b in v):
                acc.nontrivial += 1
        acc.sample({'type': t, 'three_byte_values': [arg['lo'], arg['hi']]})
    elif k == 'alias':
        # results are mutable (bytearray components, lists): editing one in place must not show in a later or sibling result
        def scramble(x):
            if isinstance(x, list):
                for c in x:
                    scramble(c)
                x.append(bytearray(b'\x08\x01!'))
            elif isinstance(x, bytearray):
                for i in range(len(x)):
                    x[i] ^= 0x5a
                x.extend(b'junk')
        for toks in all_names(list(MENU), 2):
            comps, uri, curi, wire, forms = name_forms(toks)
            for label, fn, arg_ in (('Name.from_str', Name.from_str, uri), ('Name.from_bytes', Name.from_bytes, wire),
                                    ('Name.normalize(str)', Name.normalize, uri), ('Name.normalize(bytes)', Name.normalize, wire)):
                try:
                    first = fn(arg_)
                    if len(first) == 2 and toks[0] == toks[1] and isinstance(first[0], bytearray):
                        first[0][-1:] = b'?'
                        if bytes(first[1]) != comps[1]:
                            viol.append((f'C09|alias|{label}|siblings', f'name {toks}: editing one component changed its equal sibling'))
                    scramble(first)
                    second = fn(arg_)
                    if [bytes(c) for c in second] != comps:
                        viol.append((f'C09|alias|{label}|later-result', f'name {toks}: after editing an earlier result in place, {label} returns {[bytes(c).hex()[:12] for c in second]}'))
                except Exception as e:  # noqa
                    viol.append((f'C09|alias|{label}|raises:{type(e).__name__}', f'name {toks}: {e!r}'))
                acc.evaluations += 1
                acc.nontrivial += 1
        for tok, (t, v) in MENU.items():
            exp = ts.tlv(t, v)
            for label, fn, arg_ in (('Component.from_str', Component.from_str, ref_to_str(t, v)), ('Component.from_bytes', lambda a: Component.from_bytes(a, t), v)):
                try:
                    first = fn(arg_)
                    if isinstance(first, bytearray):
                        scramble(first)
                    if bytes(fn(arg_)) != exp:
                        viol.append((f'C09|alias|{label}|later-result', f'component {tok}: an edited earlier result shows in a later one'))
                except Exception as e:  # noqa
                    viol.append((f'C09|alias|{label}|raises:{type(e).__name__}', f'component {tok}: {e!r}'))
                acc.evaluations += 1
        for nfn, nlabel in ((Component.from_number, 'from_number'), (Component.from_segment, 'from_segment'), (Component.from_version, 'from_version')):
            for x in (0, 7, 255, 256, 70000):
                try:
                    first = nfn(x, 8) if nlabel == 'from_number' else nfn(x)
                    want = bytes(first)
                    if isinstance(first, bytearray):
                        scramble(first)
                    again = nfn(x, 8) if nlabel == 'from_number' else nfn(x)
                    if bytes(again) != want:
                        viol.append((f'C09|alias|Component.{nlabel}|later-result', f'number {x}: an edited earlier result shows in a later one'))
                except Exception as e:  # noqa
                    viol.append((f'C09|alias|Component.{nlabel}|raises:{type(e).__name__}', f'number {x}: {e!r}'))
                acc.evaluations += 1
        acc.sample({'alias': 'every result edited in place, then recomputed', 'names': 'length <= 2 over the menu'})
    elif k == 'bytes1':
        for t in (8, 1, 2, 32, 0x32, 253, 65535):
            for x in range(256):
                check_component(t, bytes([x]), viol, 'bytes')
                acc.evaluations += 1
                acc.nontrivial += 1
        for x in range(256):
            ch = bytes([x]).decode('latin-1')
            # escape_str works on text: every code point below 256 alone
            try:
                esc = Component.escape_str(ch)
                c = Component.from_str(esc)
                if bytes(Component.get_value(c)) != ch.encode('utf-8') and ch not in '%':
                    viol.append(('C09|bytes|escape_str', f'escape_str({ch!r}) = {esc!r} decodes to {bytes(Component.get_value(c)).hex()}'))
            except ValueError:
                if ch not in '%=':
                    viol.append(('C09|bytes|escape_str-raises', f'char {x}'))
            acc.evaluations += 1
        acc.sample({'one_byte_values': 'all 256 under 7 types'})
    elif k == 'vlen':
        for n in list(range(0, 301)) + [65535, 65536]:
            for kind, v in (('lit', b'a' * n), ('esc', b'\x00' * n), ('mix', (b'a\x00%') * (n // 3) + b'~' * (n % 3))):
                if n > 1000 and kind != 'lit':
                    v = b'a' * (n - 3) + b'\x00/ '
                for t in (8, 32, 300):
                    check_component(t, v, viol, f'vlen')
                    acc.evaluations += 1
                    if n > 84:
                        acc.nontrivial += 1
        # values of any length under the typed-number component types (not numbers beyond 8 bytes, but legal components)
        for n in list(range(0, 20)) + [64, 253, 1786, 1787, 2000, 65535]:
            for v in (b'\x01' * n, b'\x00' * n, b'\xff' * n):
                for t in (0x32, 0x36, 0x3A):
                    check_component(t, v, viol, 'vlen-typed')
                    acc.evaluations += 1
                    acc.nontrivial += 1
        acc.sample({'value_lengths': '0..300,65535,65536', 'contents': ['literal', 'all escaped', 'mixed'], 'types': [8, 32, 300],
                    'typed_number_types': 'lengths 0..19, 64, 253, 1786, 1787, 2000, 65535'})
    elif k == 'numbers':
        if arg['lo'] == 0:
            # typed numbers under component types on both sides of the one-byte type limit (not only the naming conventions)
            for t in (1, 8, 32, 252, 253, 254, 255, 256, 65535):
                for n in list(range(0, 258)) + [65535, 65536, 2 ** 32 - 1, 2 ** 32, 2 ** 64 - 1]:
                    acc.evaluations += 1
                    try:
                        c2 = Component.from_number(n, t)
                        if bytes(c2) != ts.tlv(t, ts.uint(n)) or Component.to_number(c2) != n or Component.get_type(c2) != t:
                            viol.append(('C09|numbers|from_number-type', f'from_number({n}, {t}) = {bytes(c2).hex()}, expected {ts.tlv(t, ts.uint(n)).hex()}'))
                    except Exception as e:  # noqa
                        viol.append((f'C09|numbers|from_number-type-raises:{type(e).__name__}', f'from_number({n}, {t}): {e!r}'))
        for n in NUMBERS[arg['lo']:arg['hi']]:
            for t, pre in CONV.items():
                v = ts.uint(n)
                c = check_component(t, v, viol, 'numbers')
                acc.evaluations += 1
                acc.nontrivial += 1
                try:
                    c2 = Component.from_number(n, t)
                    if bytes(c2) != ts.tlv(t, v) or Component.to_number(c2) != n:
                        viol.append(('C09|numbers|from_number', f'{pre}={n}: {bytes(c2).hex()}'))
                    if bytes(Component.from_str(f'{pre}={n}')) != ts.tlv(t, v):
                        viol.append(('C09|numbers|shorthand-parse', f'{pre}={n}'))
                except Exception as e:  # noqa
                    viol.append((f'C09|numbers|raises:{type(e).__name__}', f'{pre}={n}: {e!r}'))
            # the named constructors of the naming conventions give the canonically encoded component, which reads back from its URI
            for fname, t in (('from_segment', 0x32), ('from_byte_offset', 0x34), ('from_version', 0x36), ('from_timestamp', 0x38), ('from_sequence_num', 0x3A)):
                acc.evaluations += 1
                try:
                    c3 = getattr(Component, fname)(n)
                    if bytes(c3) != ts.tlv(t, ts.uint(n)):
                        viol.append((f'C09|numbers|{fname}', f'{fname}({n}) = {bytes(c3).hex()}, the canonical component is {ts.tlv(t, ts.uint(n)).hex()}'))
                    elif bytes(Component.from_str(Component.to_str(c3))) != bytes(c3):
                        viol.append((f'C09|numbers|{fname}-uri', f'{fname}({n}) -> {Component.to_str(c3)!r} -> {bytes(Component.from_str(Component.to_str(c3))).hex()}'))
                except Exception as e:  # noqa
                    viol.append((f'C09|numbers|{fname}-raises:{type(e).__name__}', f'{fname}({n}): {e!r}'))
            # non-canonical widths: canonical URI must still round trip
            if n < 256:
                for w in (2, 3, 4, 8):
                    check_component(0x32, n.to_bytes(w, 'big'), viol, 'numbers-wide')
                    acc.evaluations += 1
        acc.sample({'numbers': [NUMBERS[arg['lo']], NUMBERS[arg['hi'] - 1]], 'types': list(CONV.values())})
    elif k == 'names':
        for toks in SPACE3:
            check_name(toks, viol)
            acc.evaluations += 1
            if 'E' in toks or 'R' in toks or 'T' in toks:
                acc.nontrivial += 1
        for n in range(0, 9):
            for toks in itertools.product('aE', repeat=n):
                check_name(toks, viol)
                acc.evaluations += 1
                acc.nontrivial += 1
        for n in range(1, 4):
            for toks in itertools.product('aELMN', repeat=n):
                if set(toks) & set(LONG_MENU):
                    check_name(toks, viol)
                    acc.evaluations += 1
                    acc.nontrivial += 1
        for n in range(1, 4):
            for toks in itertools.product('apqr', repeat=n):
                if set(toks) & set('pqr'):
                    check_name(toks, viol)
                    acc.evaluations += 1
                    acc.nontrivial += 1
        # text given raw (not percent-escaped) stands for its UTF-8 octets exactly, in a URI as in a list of text elements
        for t in RAW_TEXTS:
            want = [ts.tlv(8, t.encode('utf-8')), ts.tlv(8, b'a')]
            for label, val in (('uri', '/' + t + '/a'), ('list-of-text', [t, 'a']), ('generator-of-text', (x for x in [t, 'a'])),
                               ('escaped-uri', '/' + ''.join('%%%02X' % b for b in t.encode('utf-8')) + '/a')):
                try:
                    got = [bytes(c) for c in Name.normalize(val)]
                    if got != want:
                        viol.append((f'C09|names|raw-text:{label}', f'text {t!r} given as {label}: components {[g.hex() for g in got]}, its UTF-8 octets are '
                                                                     f'{want[0].hex()}'))
                except Exception as e:  # noqa
                    viol.append((f'C09|names|raw-text:{label}|raises:{type(e).__name__}', f'text {t!r}: {e!r}'))
                acc.evaluations += 1
                acc.nontrivial += 1
        component_order(viol, acc)
        acc.sample({'names': 'all 0..3 over ' + ''.join(MENU) + ' and 0..8 over aE and 1..3 over aELMN (L, M, N: components of 249, 257 and 122 bytes)', 'forms': [f[0] for f in name_forms(('a',))[4]]})
    elif k == 'pairs':
        check_pairs(arg['lo'], arg['hi'], acc, viol)
        acc.sample({'pairs_first_names': [list(SPACE3[arg['lo']]), list(SPACE3[arg['hi'] - 1])], 'against': len(SPACE3)})
    acc.state_count = acc.evaluations
    acc.transitions = acc.evaluations * 3
    acc.outcome(f"{k}|{'ok' if not viol else 'viol'}")
    acc.observe([arg, sorted({v[0] for v in viol})])
    seen = set()
    for sig, what in viol:
        if sig in seen:
            continue
        seen.add(sig)
        acc.violation(sig, what, {'unit': arg, 'sig': sig})
    return acc


def replay(case):
    acc = unit(case['unit'])
    return [{'sig': s, 'what': v[0]['what']} for s, v in acc.violations.items()]
