"""
C10 - link-layer envelopes are transparent: Nack, PIT token and wrapped packets.

diff  : for every corpus packet x table state x subset of optional LpPacket headers, run A delivers the packet
        bare, run B delivers it wrapped; handler invocations, Interest outcomes and face output (modulo the token
        envelope, checked separately) must be identical.
nack  : reason codes at every width boundary; three pending Interests on two names; exactly the Interests the
        Nack names finish with InterestNack carrying that integer.
frag  : envelopes carrying FragIndex / FragCount have no effect.
token : k <= 3 Interests with token lengths {0,1,8,32,33,none}; all reply orders and double replies; each reply
        is an LpPacket carrying the identical token and the unmodified reply bytes, bare without a token (appv2).
"""
from __future__ import annotations

import hashlib
import asyncio
import itertools

import ndn.encoding as enc
from ndn.security import DigestSha256Signer

from ndn.transport.stream_face import StreamFace
from mc.core import Acc
from mc.vloop import VLoop, tb_where
from mc.ndnenv import HFace, FRONTENDS, owned_env, exc_class
from mc.ref import tlv_strict as ts
from mc.ref import ndn_strict as ns

PROPERTY = 'C10'

HEADERS = {                     # in increasing type order
    'sequence': ts.tlv(0x51, b'\x00\x00\x00\x00\x00\x00\x00\x09'),
    'hopcount': ts.tlv(0x54, b'\x03'),
    'token': ts.tlv(0x62, b'\xaa\xbb\xcc\xdd'),
    'unknown': ts.tlv(0x0324, b'\x01\x02'),
    'inface': ts.tlv(0x032C, ts.uint(300)),
    'nexthop': ts.tlv(0x0330, ts.uint(7)),
    'cache': ts.tlv(0x0334, ts.tlv(0x0335, ts.uint(1))),
    'cong': ts.tlv(0x0340, ts.uint(2)),
    'txseq': ts.tlv(0x0348, b'\x00' * 8),
    'nondisc': ts.tlv(0x034C, b''),
}
HORDER = list(HEADERS)


def wrap(pkt: bytes, hdrs, extra=b'') -> bytes:
    return ts.tlv(0x64, extra + b''.join(HEADERS[h] for h in HORDER if h in hdrs) + ts.tlv(0x50, pkt))


def corpus():
    ip = enc.InterestParam(nonce=11, lifetime=100)
    return {
        'int-plain': bytes(enc.make_interest('/h/q', ip)),
        'int-params': bytes(enc.make_interest('/hv/q', ip, b'xyz')),
        'int-signed': bytes(enc.make_interest('/hv/q', ip, b'xyz', DigestSha256Signer(for_interest=True))),
        'int-noroute': bytes(enc.make_interest('/zz', ip)),
        'data-exact': bytes(enc.make_data('/d/a', enc.MetaInfo(), b'one', DigestSha256Signer())),
        'data-longer': bytes(enc.make_data('/d/a/b', enc.MetaInfo(), b'two', DigestSha256Signer())),
        'data-unsolicited': bytes(enc.make_data('/u', enc.MetaInfo(), b'three', DigestSha256Signer())),
    }


_C = None


def get_corpus():
    global _C
    if _C is None:
        from mc.ndnenv import FixedClock
        with owned_env(clock=FixedClock(), seed=3):
            _C = corpus()
    return _C


STATES = ['empty', 'pending', 'handlers', 'both']


class World:
    def __init__(self, fe_name, state):
        self.fe = FRONTENDS[fe_name]
        self.fe_name = fe_name
        self.loop = VLoop()
        self.loop.enter()
        self.env = owned_env(self.loop)
        self.env.__enter__()
        self.face = HFace()
        self.app = self.fe.make_app(self.face)
        self.loop.create_task(self.app.main_loop())
        self.loop.drain()
        self.calls = []
        self.outcomes = {}
        self.replies = []
        self.callers = {}
        if state in ('handlers', 'both'):
            self._attach('/h', False)
            self._attach('/hv', True)
        if state in ('pending', 'both'):
            for key, uri, cbp in (('exact', '/d/a', False), ('prefix', '/d', True)):
                self.callers[key] = self.loop.create_task(self._caller(key, uri, cbp))
            # an Interest naming the exact packet by its implicit digest, and one asking for the raw packet bytes
            dig = enc.Component.from_bytes(hashlib.sha256(get_corpus()['data-exact']).digest(), 1)
            self.callers['digest'] = self.loop.create_task(self._caller('digest', enc.Name.from_str('/d/a') + [dig], False))
            self.callers['raw'] = self.loop.create_task(self._caller('raw', '/d/a/b', False, raw=True))
            self.loop.drain()
        self.base_sent = len(self.face.sent)

    def _attach(self, prefix, with_validator):
        calls = self.calls
        reply_data = bytes(enc.make_data(prefix + '/q', enc.MetaInfo(), b'reply-' + prefix.encode()))
        if self.fe_name == 'v2':
            from ndn import types as nt

            async def val(name, sig, ctx):
                return nt.ValidResult.PASS

            def h(name, ap, reply, ctx):
                calls.append((prefix, [bytes(c).hex() for c in name], None if ap is None else bytes(ap).hex(),
                              None if ctx.get('pit_token') is None else bytes(ctx['pit_token']).hex()))
                reply(reply_data)
            self.app.attach_handler(prefix, h, val if with_validator else None)
        else:
            async def val(name, sig):
                return True

            def h(name, param, ap):
                calls.append((prefix, [bytes(c).hex() for c in name], None if ap is None else bytes(ap).hex(), None))
                self.app.put_raw_packet(reply_data)
            self.app.set_interest_filter(prefix, h, val if with_validator else None)

    async def _caller(self, key, uri, cbp, lifetime=50, raw=False):
        try:
            if raw and self.fe_name == 'legacy':
                res = await self.fe.express(self.app, uri, lifetime=lifetime, can_be_prefix=cbp, nonce=5, need_raw_packet=True)
                rawpkt = bytes(res[3])
            else:
                res = await self.fe.express(self.app, uri, lifetime=lifetime, can_be_prefix=cbp, nonce=5)
                rawpkt = bytes(res[2]['raw_packet']) if raw and isinstance(res[2], dict) and res[2].get('raw_packet') is not None else None
            n, c = self.fe.result(res)
            self.outcomes[key] = 'data:' + '/'.join(bytes(x).hex() for x in n) + ':' + bytes(c or b'').hex()
            if raw and rawpkt is not None:
                self.outcomes[key] += ':raw=' + rawpkt.hex()
        except BaseException as e:  # noqa
            o = exc_class(e)
            if o.startswith('error:'):
                o += '@' + tb_where(e)
            self.outcomes[key] = o

    def deliver(self, wire):
        self.face.deliver(wire)
        self.loop.drain()

    def finish(self):
        self.loop.settle()
        fails = self.loop.task_failures(ignore=set(self.callers.values()))
        hr = list(self.loop.handler_reports)
        sent = self.face.sent[self.base_sent:]
        self.app.shutdown()
        self.loop.settle()
        self.env.__exit__(None, None, None)
        self.loop.__exit__(None, None, None)
        return {'calls': self.calls, 'outcomes': dict(self.outcomes), 'sent': sent,
                'failures': [(f['exception'], f['where']) for f in fails], 'handler': hr}


def run_diff(fe, state, pkt_name, hdrs):
    viol = []
    pkt = get_corpus()[pkt_name]
    a = World(fe, state)
    a.deliver(pkt)
    oa = a.finish()
    b = World(fe, state)
    b.deliver(wrap(pkt, hdrs))
    ob = b.finish()
    tag = f'{fe}|{pkt_name}'
    # token envelope on replies
    sent_b = []
    for w in ob['sent']:
        if 'token' in hdrs and fe == 'v2' and pkt_name.startswith('int') and w[:1] == b'\x64':
            try:
                lp = ns.read_lp(w)
            except ts.Malformed as e:
                viol.append((f'C10|diff|{tag}|reply-envelope-malformed', f'{e}'))
                continue
            if lp['pit_token'] != b'\xaa\xbb\xcc\xdd':
                viol.append((f'C10|diff|{tag}|reply-token', f"reply carries token {lp['pit_token']!r}"))
            sent_b.append(lp['fragment'])
        else:
            sent_b.append(w)
    calls_a = [c[:3] for c in oa['calls']]
    calls_b = [c[:3] for c in ob['calls']]
    if calls_a != calls_b:
        viol.append((f'C10|diff|{tag}|handler-calls-differ', f'bare: {calls_a} wrapped({sorted(hdrs)}): {calls_b}'))
    if oa['outcomes'] != ob['outcomes']:
        viol.append((f'C10|diff|{tag}|outcomes-differ', f"bare: {oa['outcomes']} wrapped({sorted(hdrs)}): {ob['outcomes']}"))
    if oa['sent'] != sent_b:
        viol.append((f'C10|diff|{tag}|output-differs', f"bare sent {len(oa['sent'])} packets, wrapped {len(sent_b)} (modulo token envelope)"))
    if 'token' in hdrs and fe == 'v2':
        for c in ob['calls']:
            if c[3] != 'aabbccdd':
                viol.append((f'C10|diff|{tag}|context-token', f'handler context pit_token = {c[3]}'))
    for o in (oa, ob):
        for exc, where in o['failures']:
            viol.append((f'C10|diff|{fe}|task-error|{exc}@{where}', f'{tag} hdrs={sorted(hdrs)}'))
    return viol, (len(oa['calls']), tuple(sorted((k, v.split(':')[0]) for k, v in oa['outcomes'].items())), len(oa['sent']))


REASONS = [0, 1, 50, 100, 150, 255, 256, 65535, 65536, 2 ** 32 - 1, 2 ** 32, 2 ** 64 - 1]


NACK_DATA = bytes(enc.make_data('/n/a', enc.MetaInfo(), b'after-the-nack', DigestSha256Signer()))
NACK_DIGEST = bytes([1, 32]) + hashlib.sha256(NACK_DATA).digest()      # the Interest with a digest names exactly that packet


def run_nack(fe, reason, target, hdrs=()):
    viol = []
    w = World(fe, 'handlers')
    for key, uri, cbp in (('a-exact', '/n/a', False), ('a-prefix', '/n/a', True), ('b', '/n/b', False)):
        w.callers[key] = w.loop.create_task(w._caller(key, uri, cbp))
    # an Interest naming a packet by its implicit digest: a Nack names it with the digest component
    dname = enc.Name.from_str('/n/a') + [NACK_DIGEST]
    w.callers['a-digest'] = w.loop.create_task(w._caller('a-digest', dname, False))
    w.loop.drain()
    w.base_sent = len(w.face.sent)
    tname = enc.Name.from_str('/n/a') + [NACK_DIGEST] if target == '/n/a+digest' else target
    inner = bytes(enc.make_interest(tname, enc.InterestParam(nonce=5, lifetime=50, can_be_prefix=False)))
    if reason is None:
        nack_hdr = ts.tlv(0x0320, b'')
    else:
        nack_hdr = ts.tlv(0x0320, ts.tlv(0x0321, ts.uint(reason)))
    pre = b''.join(HEADERS[h] for h in HORDER if h in hdrs and h in ('sequence', 'hopcount', 'token'))
    post = b''.join(HEADERS[h] for h in HORDER if h in hdrs and h not in ('sequence', 'hopcount', 'token', 'unknown'))
    w.deliver(ts.tlv(0x64, pre + nack_hdr + post + ts.tlv(0x50, inner)))
    mid = dict(w.outcomes)
    calls_mid = list(w.calls)
    # afterwards the Data /n/a arrives: every Interest for it that the Nack did not name is still waiting and gets it
    w.deliver(NACK_DATA)
    after = dict(w.outcomes)
    o = w.finish()
    for key in ('a-exact', 'a-prefix', 'a-digest'):
        if mid.get(key) is None and not str(after.get(key)).startswith('data:'):
            viol.append((f'C10|nack|{fe}|bystander-lost|{key}', f'Nack reason {reason} for {target}: Interest {key} was not named by it, but the Data /n/a arriving '
                                                                f'afterwards did not complete it (-> {after.get(key)}, final {o["outcomes"].get(key)})'))
    exp_named = {'/n/a': ('a-exact', 'a-prefix'), '/n/b': ('b',), '/h/q': (), '/n/a+digest': ('a-digest',), '/n/a/x': (), '/n': ()}[target]
    for key in ('a-exact', 'a-prefix', 'b', 'a-digest'):
        got = mid.get(key)
        if key in exp_named:
            if reason is not None and got != f'nack:{reason}':
                viol.append((f'C10|nack|{fe}|named-interest|got={None if got is None else got.split(":")[0]}',
                             f'Nack reason {reason} for {target}: Interest {key} -> {got} (final {o["outcomes"].get(key)})'))
        else:
            if got is not None:
                viol.append((f'C10|nack|{fe}|unnamed-interest-affected', f'Nack for {target}: Interest {key} -> {got}'))
            elif key == 'b' and o['outcomes'].get(key) != 'timeout':
                viol.append((f'C10|nack|{fe}|unnamed-interest-end|{o["outcomes"].get(key)}', f'Interest {key} ended {o["outcomes"].get(key)}'))
    if calls_mid:
        viol.append((f'C10|nack|{fe}|nack-dispatched-to-handler', f'Nack for {target} reason {reason} reached handler {calls_mid}'))
    if o['sent']:
        viol.append((f'C10|nack|{fe}|output', 'a Nack caused output'))
    for exc, where in o['failures']:
        viol.append((f'C10|nack|{fe}|task-error|{exc}@{where}', f'reason {reason}'))
    return viol, tuple(sorted(mid.items()))


def run_frag(fe, pkt_name, variant):
    viol = []
    pkt = get_corpus()[pkt_name]
    w = World(fe, 'both')
    extra = {'index': ts.tlv(0x52, b'\x00'), 'count': ts.tlv(0x53, b'\x01'),
             'both': ts.tlv(0x52, b'\x00') + ts.tlv(0x53, b'\x02'),
             'seq+both': HEADERS['sequence'] + ts.tlv(0x52, b'\x00') + ts.tlv(0x53, b'\x02'),
             'seq+index': HEADERS['sequence'] + ts.tlv(0x52, b'\x01')}[variant]
    w.deliver(wrap(pkt, (), extra=extra))
    mid = dict(w.outcomes)
    o = w.finish()
    # FragIndex 0 alone / FragCount 1 alone describe a packet that is complete in this one envelope: whether such an envelope counts
    # as fragmented is not settled by the statement (the library drops it, a link service with fragmentation enabled sends it for
    # every small packet) - no claim either way, only that nothing fails
    if variant not in ('index', 'count') and (o['calls'] or mid or o['sent']):
        viol.append((f'C10|frag|{fe}|fragment-processed', f'{pkt_name} in a fragmented envelope ({variant}) had an effect: '
                                                          f'calls={o["calls"]} outcomes={mid} sent={len(o["sent"])}'))
    for exc, where in o['failures']:
        viol.append((f'C10|frag|{fe}|task-error|{exc}@{where}', f'{pkt_name} {variant}'))
    return viol


TOKENS = {'none': None, 't0': b'', 't1': b'\x01', 't8': bytes(range(8)), 't32': bytes(range(32)), 't33': bytes(range(33))}


class SFace(StreamFace):
    """the shipped stream face with the harness holding the other end of the byte stream: what the application writes is one byte
    stream; the packets in it are what a reference framer finds (anything left over counts as a packet of its own)"""

    def __init__(self):
        super().__init__()
        self.stream = bytearray()

    async def open(self):
        face = self

        class Writer:
            def write(self, data):
                face.stream += bytes(data)

            def close(self):
                face.reader.feed_eof()

            def is_closing(self):
                return False

            async def wait_closed(self):
                return None

            async def drain(self):
                return None
        self.reader = asyncio.StreamReader()
        self.writer = Writer()
        self.running = True

    def isLocalFace(self):
        return True

    def deliver(self, wire, typ=None, label=None):
        self.reader.feed_data(bytes(wire))

    @property
    def sent(self):
        from checks.c06 import ref_frames
        data = bytes(self.stream)
        frames = [f for _, f in ref_frames(data)]
        rest = data[sum(len(f) for f in frames):]
        return frames + ([rest] if rest else [])


def run_tokens(kinds, order, debug=False, pad=None, stream=False):
    if debug:
        from mc.ndnenv import debug_logging
        with debug_logging():
            return [(sg + '|debug-logging', w + ' (DEBUG logging enabled)') for sg, w in run_tokens(kinds, order)]
    if stream:
        return [(sg + '|stream-face', w + ' (on the shipped stream face)') for sg, w in _run_tokens(kinds, order, pad, stream=True)]
    return _run_tokens(kinds, order, pad)


def _run_tokens(kinds, order, pad=None, stream=False):
    """kinds: tuple of token kinds for Interests 0..k-1; order: sequence of Interest indices to reply to (may repeat)"""
    viol = []
    loop = VLoop()
    with loop, owned_env(loop):
        face = SFace() if stream else HFace()
        app = FRONTENDS['v2'].make_app(face)
        loop.create_task(app.main_loop())
        loop.drain()
        kept = {}

        def h(name, ap, reply, ctx):
            kept[bytes(name[-1])] = (reply, ctx)
        app.attach_handler('/t', h)
        for i, kd in enumerate(kinds):
            inner = bytes(enc.make_interest(f'/t/i{i}', enc.InterestParam(nonce=i + 1, lifetime=4000)))
            tok = TOKENS[kd]
            wire = inner if tok is None else ts.tlv(0x64, ts.tlv(0x62, tok) + ts.tlv(0x50, inner))
            face.deliver(wire)
            loop.drain()
        if len(kept) != len(kinds):
            return [('C10|token|handler-not-called', f'{kinds}: {len(kept)} of {len(kinds)} Interests reached the handler')]
        for step, i in enumerate(order):
            reply, ctx = kept[bytes(enc.Component.from_str(f'i{i}'))]
            data = bytes(enc.make_data(f'/t/i{i}', enc.MetaInfo(), b'r%d-%d' % (i, step) + b'p' * (pad or 0)))
            before = len(face.sent)
            reply(data)
            out = face.sent[before:]
            tok = TOKENS[kinds[i]]
            if len(out) != 1:
                viol.append(('C10|token|reply-count', f'{kinds} order {order}: reply wrote {len(out)} packets'))
                continue
            if tok is None:
                if out[0] != data:
                    viol.append(('C10|token|bare-reply-modified', f'{kinds} order {order}: reply to token-less Interest {i} not sent bare'))
            else:
                try:
                    lp = ns.read_lp(out[0], minimal=True)
                except ts.Malformed as e:
                    viol.append((f'C10|token|reply-not-an-envelope|len={len(tok)}', f'{kinds} order {order}: reply to Interest {i}: {e}'))
                    continue
                if lp['pit_token'] != tok:
                    viol.append((f'C10|token|wrong-token|len={len(tok)}', f"{kinds} order {order}: reply to Interest {i} carries "
                                 f"{None if lp['pit_token'] is None else lp['pit_token'].hex()} instead of {tok.hex()}"))
                if lp['fragment'] != data:
                    viol.append(('C10|token|fragment-modified', f'{kinds} order {order}: reply bytes changed'))
                elif out[0] != ts.tlv(0x64, ts.tlv(0x62, tok) + ts.tlv(0x50, data)):
                    viol.append((f'C10|token|envelope-bytes|len={len(tok)}', f'{kinds} order {order}: the envelope of a {len(data)}-byte reply is not the minimal '
                                                                             f'LpPacket(PitToken, Fragment): {out[0][:12].hex()}.. ({len(out[0])} B)'))
        app.shutdown()
        loop.settle()
        for f in loop.task_failures():
            viol.append((f"C10|token|task-error|{f['exception']}@{f['where']}", f'{kinds}'))
    return viol


def token_cases(tier):
    ks = list(TOKENS)
    for k in (1, 2, 3):
        for kinds in itertools.product(ks, repeat=k):
            for order in itertools.permutations(range(k)):
                yield kinds, list(order)
            yield kinds, list(range(k)) + list(range(k - 1, -1, -1))       # every Interest answered twice


def plan(tier, seed):
    units = []
    subsets = []
    for r in range(len(HORDER) + 1):
        for c in itertools.combinations(HORDER, r):
            subsets.append(list(c))
    for fe in ('v2', 'legacy'):
        for state in STATES:
            for pk in get_corpus():
                units.append({'kind': 'diff', 'fe': fe, 'state': state, 'pkt': pk, 'subsets': subsets})
        units.append({'kind': 'nack', 'fe': fe})
        units.append({'kind': 'frag', 'fe': fe})
    ntok = sum(1 for _ in token_cases(tier))
    for lo in range(0, ntok, 400):
        units.append({'kind': 'token', 'lo': lo, 'hi': min(ntok, lo + 400), 'tier': tier})
    units.append({'kind': 'tokensize'})
    return {
        'units': units,
        'rule': 'diff: pair of executions (bare, wrapped) per (front-end, table state, packet, header subset); nack: (front-end, '
                'reason, named name, extra headers); token: (token kinds of k<=3 Interests, reply order incl. double replies). '
                'Non-trivial = wrapped run with >=1 header, reason not in the 1-byte range, or >=2 Interests with distinct tokens '
                'answered out of arrival order.',
        'bounds': {'header_subsets': len(subsets), 'headers': HORDER, 'reasons': [str(r) for r in REASONS], 'token_cases': ntok,
                   'token_lengths': [0, 1, 8, 32, 33, 'none'], 'states': STATES, 'corpus': list(get_corpus())},
        'assumptions': ['the unknown header uses type 0x0324 (ignorable under both the library rule and NDNLPv2)',
                        'an absent NackReason is outside the stated range: reported as information only',
                        'the legacy front-end has no reply callback: token clause applies to appv2'],
    }


def unit(arg):
    acc = Acc()
    acc.state_hashes = None
    k = arg['kind']
    if k == 'diff':
        for hdrs in arg['subsets']:
            v, summary = run_diff(arg['fe'], arg['state'], arg['pkt'], hdrs)
            acc.evaluations += 2
            acc.state_count += 1
            acc.transitions += 4
            if hdrs:
                acc.nontrivial += 1
            acc.outcome(f"diff|{arg['fe']}|{arg['state']}|{arg['pkt']}|{summary}")
            acc.observe([arg['fe'], arg['state'], arg['pkt'], hdrs, [x[0] for x in v]])
            for sig, what in v:
                acc.violation(sig, what, {'kind': 'diff', 'fe': arg['fe'], 'state': arg['state'], 'pkt': arg['pkt'], 'hdrs': hdrs})
        acc.sample({'diff': [arg['fe'], arg['state'], arg['pkt']], 'last_header_subset': hdrs, 'summary(calls,outcomes,sent)': repr(summary)})
    elif k == 'nack':
        for reason in REASONS + [None]:
            for target in ('/n/a', '/n/b', '/h/q', '/n/a+digest', '/n/a/x', '/n'):
                for hdrs in ((), ('token',), ('cong', 'inface'), ('sequence',), ('sequence', 'hopcount', 'token')):
                    v, summary = run_nack(arg['fe'], reason, target, hdrs)
                    acc.evaluations += 1
                    acc.state_count += 1
                    acc.transitions += 3
                    if reason is None:
                        acc.no_claim += 1
                    if reason is not None and reason > 255:
                        acc.nontrivial += 1
                    acc.outcome(f"nack|{arg['fe']}|{target}|{'absent' if reason is None else 'w%d' % len(ts.uint(reason))}")
                    acc.observe([arg['fe'], reason, target, hdrs, summary, [x[0] for x in v]])
                    for sig, what in v:
                        acc.violation(sig, what, {'kind': 'nack', 'fe': arg['fe'], 'reason': reason, 'target': target, 'hdrs': list(hdrs)})
        acc.sample({'nack': arg['fe'], 'reasons': [str(r) for r in REASONS], 'last': repr(summary)})
    elif k == 'frag':
        for pk in get_corpus():
            for variant in ('index', 'count', 'both', 'seq+both', 'seq+index'):
                v = run_frag(arg['fe'], pk, variant)
                acc.evaluations += 1
                acc.state_count += 1
                acc.nontrivial += 1
                acc.outcome(f"frag|{arg['fe']}|{'ok' if not v else 'viol'}")
                acc.observe([arg['fe'], pk, variant, [x[0] for x in v]])
                for sig, what in v:
                    acc.violation(sig, what, {'kind': 'frag', 'fe': arg['fe'], 'pkt': pk, 'variant': variant})
        acc.sample({'frag': arg['fe'], 'variants': ['index', 'count', 'both', 'seq+both', 'seq+index']})
    elif k == 'token':
        for kinds, order in itertools.islice(token_cases(arg['tier']), arg['lo'], arg['hi']):
            debug = len(kinds) <= 2        # the one- and two-Interest cases also with the library's DEBUG logging turned on
            v = run_tokens(kinds, order)
            if debug and not v:
                v = run_tokens(kinds, order, debug=True)
                acc.evaluations += 1
                acc.state_count += 1
            if debug and not v:
                # ... and on the shipped stream face (what the application writes is a byte stream, re-framed by the reference framer)
                v = run_tokens(kinds, order, stream=True)
                acc.evaluations += 1
                acc.state_count += 1
            acc.evaluations += 1
            acc.state_count += 1
            acc.transitions += len(order)
            if len(set(kinds)) >= 2 and order != sorted(order):
                acc.nontrivial += 1
            acc.outcome(f"token|k={len(kinds)}|{'ok' if not v else 'viol'}")
            acc.observe([kinds, order, [x[0] for x in v]])
            for sig, what in v:
                acc.violation(sig, what, {'kind': 'token', 'kinds': list(kinds), 'order': order, 'debug': sig.endswith('|debug-logging'), 'stream': sig.endswith('|stream-face')})
        acc.sample({'token_kinds': list(kinds), 'reply_order': order})
    if k == 'tokensize':
        # one Interest, reply sizes sweeping the Data and the envelope across the one-byte length limit (252 / 253)
        for kd in ('t0', 't1', 't8', 't33'):
            for pad in range(150, 260):
                v = run_tokens((kd,), [0], pad=pad)
                acc.evaluations += 1
                acc.state_count += 1
                acc.transitions += 2
                acc.nontrivial += 1
                acc.outcome(f"tokensize|{kd}|{'ok' if not v else 'viol'}")
                acc.observe([kd, pad, [x[0] for x in v]])
                for sig, what in v:
                    acc.violation(sig, what + f' (content padded by {pad})', {'kind': 'tokensize', 'tok': kd, 'pad': pad})
        acc.sample({'tokensize': 'token kinds t0,t1,t8,t33 x content padding 150..259'})
    return acc


def replay(case):
    k = case['kind']
    if k == 'tokensize':
        return [{'sig': s, 'what': w} for s, w in run_tokens((case['tok'],), [0], pad=case['pad'])]
    if k == 'diff':
        v, _ = run_diff(case['fe'], case['state'], case['pkt'], case['hdrs'])
    elif k == 'nack':
        v, _ = run_nack(case['fe'], case['reason'], case['target'], tuple(case['hdrs']))
    elif k == 'frag':
        v = run_frag(case['fe'], case['pkt'], case['variant'])
    else:
        v = run_tokens(tuple(case['kinds']), case['order'], debug=case.get('debug', False), stream=case.get('stream', False))
    return [{'sig': s, 'what': w} for s, w in v]
