"""
C11 - a compiled trust schema matches exactly the names its source text describes.

E-prog: every schema of a bounded grammar (mc/lvsgen.py: up to 3 rules, rule references incl. the same rule twice,
redefinitions, temporary rules and patterns, 1-2 constraint sets of 1-2 terms with literal / pattern / user-function
options) is rendered to text and compiled by the real compile_lvs; every name of length 0..Lmax+1 over {a,b,c} (c is
fresh) is matched with the compiled model and with Checker.load(Checker.save()); the set of (rule, bindings) reported
must equal the set computed by the naive reference matcher (mc/ref/lvs_ref.py) written from the documentation.
"""
from __future__ import annotations

import itertools

from mc.core import Acc
from mc import lvsgen
from mc.ref import lvs_ref
from mc.vloop import tb_where
from checks.lvs_common import FNS, install_lark_cache, comp_name, lib_matches, claimable, Checker, compile_lvs, SemanticError

PROPERTY = 'C11'


def check_schema(schema, acc=None):
    viol = []
    text = lvs_ref.render(schema)
    ids = set(lvs_ref.rule_ids(schema))
    ok_claim = claimable(schema)

    def bad(clause, what):
        viol.append((f'C11|{clause}', f'{what}; schema:\n{text}'))
    try:
        model = compile_lvs(text)
        ck = Checker(model, FNS)
    except SemanticError as e:
        if ok_claim:
            bad('well-formed-schema-rejected', f'compile raised SemanticError({e})')
            return 'rejected', viol
        return 'no-claim-rejected', viol
    except Exception as e:  # noqa
        bad(f'compile-raises:{type(e).__name__}@{tb_where(e)}', f'{e!r}')
        return 'compile-raises', viol
    try:
        ck2 = Checker.load(ck.save(), FNS)
    except Exception as e:  # noqa
        bad(f'load-raises:{type(e).__name__}@{tb_where(e)}', f'loading the saved model raised {e!r}')
        return 'load-raises', viol
    ck3 = None
    try:
        from ndn.app_support.light_versec.binary import LvsModel
        bare = LvsModel.parse(bytes(model.encode()))
        bare.symbols = []          # documented as optional: only needed for the identifiers of named patterns
        ck3 = Checker(bare, FNS)
    except Exception as e:  # noqa
        bad(f'no-symbols-raises:{type(e).__name__}@{tb_where(e)}', f'building a checker from the model without its symbol table raised {e!r}')
        return 'load-raises', viol
    ref = lvs_ref.RefSchema(schema, FNS)
    lmax = ref.max_len()
    n = 0
    prev_name = []
    last_hit = None
    for toks in lvsgen.query_names(min(lmax + 1, 5)):
        name = comp_name(toks)
        want = ref.match(name)
        n += 1
        if n % 2 == 0:
            # an application that only wants to know whether *something* matches stops after the first answer: the abandoned query
            # must not leave anything behind for the next one (here: a query on another name, one step earlier in the enumeration)
            try:
                next(iter(ck.match(list(prev_name))), None)
                any(True for _ in ck2.match(list(prev_name)))
            except Exception:  # noqa
                pass
        prev_name = name
        if want:
            last_hit = name
        for label, c in (('compiled', ck), ('loaded', ck2)):
            try:
                got = lib_matches(c, list(name), ids)
            except Exception as e:  # noqa
                bad(f'match-raises:{type(e).__name__}@{tb_where(e)}|len={len(toks)}', f'match(/{"/".join(toks)}) on the {label} model raised {e!r}')
                break
            if got != want:
                extra = got - want
                miss = want - got
                kind = 'spurious-match' if extra and not miss else ('missed-match' if miss and not extra else 'different-matches')
                bad(f'{kind}|{label}', f'name /{"/".join(toks)}: library reports {fmt(got)}, the source text describes {fmt(want)}')
                break
        if not viol:
            try:
                got3 = {r for r, _ in lib_matches(ck3, list(name), ids)}
                if got3 != {r for r, _ in want}:
                    bad('different-rules|no-symbols', f'name /{"/".join(toks)}: the model without symbol table reports rules {sorted(got3)}, '
                                                      f'the source text describes {sorted({r for r, _ in want})}')
            except Exception as e:  # noqa
                bad(f'match-raises:{type(e).__name__}@{tb_where(e)}|no-symbols', f'match(/{"/".join(toks)}) raised {e!r}')
        if not viol and want:
            # a packet's full name ends with its implicit digest: the schema does not talk about that component
            try:
                gotd = lib_matches(ck, list(name) + [IMPLICIT_DIGEST], ids)
                if gotd != want:
                    bad('digest-suffix-changes-match', f'name /{"/".join(toks)} followed by an implicit digest component: library reports {fmt(gotd)}, '
                                                       f'without the digest {fmt(want)}')
            except Exception as e:  # noqa
                bad(f'match-raises:{type(e).__name__}@{tb_where(e)}|with-digest', f'match(/{"/".join(toks)}/<digest>) raised {e!r}')
        if viol:
            break
    if not viol and last_hit is not None:
        # what a query hands out is the caller's: editing it in place must not show in the next query
        try:
            for rules, ctx in ck.match(list(last_hit)):
                rules.append('#scribble')
                ctx.clear()
            got = lib_matches(ck, list(last_hit), ids | {'#scribble'})
            if got != ref.match(last_hit):
                bad('edited-result-shows-in-next-query', f'after the caller edited the lists / dictionaries one query returned, the same query reports {fmt(got)}')
        except Exception as e:  # noqa
            bad(f'match-raises:{type(e).__name__}@{tb_where(e)}|after-edited-result', f'{e!r}')
    if acc is not None:
        acc.transitions += 3 * n
    return ('ok' if not viol else 'viol'), viol


IMPLICIT_DIGEST = bytes([1, 32]) + bytes(range(32))


def fmt(s):
    return sorted((r, sorted((k, v[2:].decode()) for k, v in b)) for r, b in s)


def plan(tier, seed):
    n = sum(1 for _ in lvsgen.schemas(tier))
    chunk = 600 if tier == 'quick' else 6000
    units = [{'lo': lo, 'hi': min(n, lo + chunk), 'tier': tier} for lo in range(0, n, chunk)]
    units.append({'special': 'wide', 'tier': tier})
    units.append({'special': 'two-checkers', 'tier': tier})
    units.append({'special': 'builtins', 'tier': tier})
    nf = sum(1 for _ in lvsgen.families())
    units += [{'special': 'families', 'lo': lo, 'hi': min(nf, lo + 60), 'tier': tier} for lo in range(0, nf, 60)]
    return {
        'units': units,
        'rule': 'program = schema of the bounded grammar (complete enumeration); for each, every name of length 0..Lmax+1 (at most 5) over '
                '{a,b,c} is matched on the compiled and on the saved-and-reloaded model. Non-trivial = schema with a rule reference, a '
                'redefinition, a temporary rule/pattern or a constraint.',
        'bounds': {'schemas': n, 'rules_per_schema': 3, 'name_elements': 3, 'constraint_sets': 2, 'terms_per_set': 2, 'query_alphabet': 'a,b,c'},
        'assumptions': ['no-claim zone: a constraint naming a pattern that occurs only in another rule (legal only for signing chains, compile '
                        'success depends on rule order): skipped when the compiler rejects it, compared when it compiles',
                        'match() results for intermediate tree nodes (pseudo rule names #_<n>) are not rules of the schema and are ignored'],
    }


def wide_schemas():
    """schemas with more than nine named patterns (pattern numbers with two digits), later patterns repeated and constrained"""
    pats = [['pat', f'p{i}'] for i in range(12)]
    yield [{'id': '#w', 'name': pats + [['pat', 'p11'], ['pat', 'p0']], 'cons': [], 'sign': []}]
    yield [{'id': '#w', 'name': pats + [['pat', 'p10']], 'cons': [[['p11', [['pat', 'p9']]]]], 'sign': []}]
    yield [{'id': '#k', 'name': pats[:6], 'cons': [], 'sign': []},
           {'id': '#w', 'name': [['ref', '#k']] + pats[6:] + [['pat', 'p11']], 'cons': [[['p10', [['fn', '$eq', [['pat', 'p2']]]]]]], 'sign': []}]


def wide_queries(n):
    base = ['a'] * n
    yield tuple(base)
    for pos in range(n):
        q = list(base)
        q[pos] = 'b'
        yield tuple(q)
    yield tuple(['a', 'b'] * (n // 2) + ['a'] * (n % 2))
    yield tuple(base[:-1])
    yield tuple(base + ['a'])


def check_wide(schema):
    viol = []
    text = lvs_ref.render(schema)
    ids = set(lvs_ref.rule_ids(schema))
    try:
        ck = Checker(compile_lvs(text), FNS)
        ck2 = Checker.load(ck.save(), FNS)
    except Exception as e:  # noqa
        return [(f'C11|wide|compile-raises:{type(e).__name__}@{tb_where(e)}', f'{e!r}; schema:\n{text}')]
    ref = lvs_ref.RefSchema(schema, FNS)
    for toks in wide_queries(ref.max_len()):
        name = comp_name(toks)
        want = ref.match(name)
        for label, c in (('compiled', ck), ('loaded', ck2)):
            try:
                got = lib_matches(c, list(name), ids)
            except Exception as e:  # noqa
                viol.append((f'C11|wide|match-raises:{type(e).__name__}@{tb_where(e)}', f'{e!r}'))
                return viol
            if got != want:
                viol.append((f'C11|wide|different-matches|{label}', f'name /{"/".join(toks)}: library reports {fmt(got)}, the source text describes '
                                                                    f'{fmt(want)}; schema:\n{text}'))
                return viol
    return viol


def check_two_checkers(schema):
    """two checkers in one process that define the same user function differently: each evaluates with its own"""
    viol = []
    text = lvs_ref.render(schema)
    ids = set(lvs_ref.rule_ids(schema))
    never = {'$eq': lambda c, args: False}
    try:
        model = compile_lvs(text)
        first = Checker(model, FNS)
        second = Checker(compile_lvs(text), never)
    except Exception as e:  # noqa
        return [(f'C11|two-checkers|compile-raises:{type(e).__name__}', f'{e!r}')]
    for ck, fns, label in ((first, FNS, 'first'), (second, never, 'second'), (first, FNS, 'first-again')):
        ref = lvs_ref.RefSchema(schema, fns)
        for toks in lvsgen.query_names(min(ref.max_len() + 1, 4)):
            name = comp_name(toks)
            want = ref.match(name)
            got = lib_matches(ck, list(name), ids)
            if got != want:
                viol.append((f'C11|two-checkers|different-matches|{label}', f'name /{"/".join(toks)}: the {label} checker reports {fmt(got)}, with its own '
                                                                            f'user functions the source text describes {fmt(want)}; schema:\n{text}'))
                return viol
    return viol


def fn_schemas():
    for nm in ([['lit', 'a'], ['pat', 'x']], [['pat', 'x'], ['pat', 'y']], [['pat', 'y'], ['lit', 'a'], ['pat', 'x']]):
        for opts in ([['fn', '$eq', [['lit', 'a']]]], [['fn', '$eq', [['pat', 'y']]]] if any(e == ['pat', 'y'] for e in nm) else [['fn', '$eq', [['lit', 'b']]]],
                     [['lit', 'b'], ['fn', '$eq', [['lit', 'a']]]]):
            yield [{'id': '#r', 'name': nm, 'cons': [[['x', opts]]], 'sign': []}]


def check_builtins():
    """the user functions the library ships ($eq, $eq_type) with component types on both sides of the one-byte type limit"""
    from ndn.app_support.light_versec.checker import DEFAULT_USER_FNS
    viol = []
    comps = [ts_tlv(t, v) for t in (8, 32, 252, 253, 300, 301, 65535) for v in (b'a', b'')]
    for fname, ref_fn in (('$eq', lambda c, args: all(bytes(x) == bytes(c) for x in args)),
                          ('$eq_type', lambda c, args: all(type_of(x) == type_of(c) for x in args))):
        fn = DEFAULT_USER_FNS.get(fname)
        if fn is None:
            viol.append((f'C11|builtin|{fname}|missing', 'not in DEFAULT_USER_FNS'))
            continue
        for c in comps:
            for a in comps:
                for args in ([a], [a, c], []):
                    try:
                        got = bool(fn(c, list(args)))
                    except Exception as e:  # noqa
                        viol.append((f'C11|builtin|{fname}|raises:{type(e).__name__}', f'{fname}({c.hex()}, {[x.hex() for x in args]}): {e!r}'))
                        return viol
                    if got != ref_fn(c, args):
                        viol.append((f'C11|builtin|{fname}|wrong', f'{fname}({c.hex()}, {[x.hex() for x in args]}) = {got}'))
                        return viol
    return viol


def ts_tlv(t, v):
    from mc.ref import tlv_strict as ts
    return ts.tlv(t, v)


def type_of(c):
    from mc.ref import tlv_strict as ts
    return ts.read_single(bytes(c)).typ


def unit_special(arg):
    acc = Acc()
    acc.state_hashes = None
    install_lark_cache()
    if arg['special'] == 'builtins':
        viol = check_builtins()
        acc.evaluations += 1
        acc.state_count += 1
        acc.nontrivial += 1
        acc.transitions += 14 * 14 * 3 * 2
        acc.outcome(f"builtins|{'ok' if not viol else 'viol'}")
        acc.observe(['builtins', [v[0] for v in viol]])
        for sig, what in viol:
            acc.violation(sig, what, {'special': 'builtins', 'schema': None})
        acc.sample({'special': 'builtins', 'component_types': [8, 32, 252, 253, 300, 301, 65535]})
        return acc
    if arg['special'] == 'families':
        for schema in itertools.islice(lvsgen.families(), arg['lo'], arg['hi']):
            key, viol = check_schema(schema, acc)
            acc.evaluations += 1
            acc.state_count += 1
            acc.nontrivial += 1
            if key.startswith('no-claim'):
                acc.no_claim += 1
            acc.outcome(f'families|{key}')
            acc.observe([lvs_ref.render(schema), key, [v[0] for v in viol]])
            for sig, what in viol:
                acc.violation(sig, what, {'schema': schema})
        acc.sample({'special': 'families', 'last_schema': lvs_ref.render(schema)})
        return acc
    gen = wide_schemas() if arg['special'] == 'wide' else fn_schemas()
    fn = check_wide if arg['special'] == 'wide' else check_two_checkers
    for schema in gen:
        viol = fn(schema)
        acc.evaluations += 1
        acc.state_count += 1
        acc.transitions += 20
        acc.nontrivial += 1
        acc.outcome(f"{arg['special']}|{'ok' if not viol else 'viol'}")
        acc.observe([lvs_ref.render(schema), [v[0] for v in viol]])
        for sig, what in viol:
            acc.violation(sig, what, {'special': arg['special'], 'schema': schema})
    acc.sample({'special': arg['special'], 'last_schema': lvs_ref.render(schema)})
    return acc


def unit(arg):
    if 'special' in arg:
        return unit_special(arg)
    acc = Acc()
    acc.state_hashes = None
    install_lark_cache()
    for schema in itertools.islice(lvsgen.schemas(arg['tier']), arg['lo'], arg['hi']):
        key, viol = check_schema(schema, acc)
        acc.evaluations += 1
        acc.state_count += 1
        if key.startswith('no-claim'):
            acc.no_claim += 1
        if len(schema) > 1 or schema[0]['cons'] or any(e[1].startswith('_') for e in schema[0]['name'] if e[0] == 'pat'):
            acc.nontrivial += 1
        acc.outcome(f'{len(schema)}rules|{key}')
        acc.observe([lvs_ref.render(schema), key, [v[0] for v in viol]])
        for sig, what in viol:
            acc.violation(sig, what, {'schema': schema})
        if acc.evaluations % 250 == 1:
            acc.sample({'schema': lvs_ref.render(schema), 'outcome': key})
    return acc


def replay(case):
    install_lark_cache()
    if case.get('special') == 'builtins':
        return [{'sig': s, 'what': w} for s, w in check_builtins()]
    if 'special' in case:
        viol = (check_wide if case['special'] == 'wide' else check_two_checkers)(case['schema'])
        return [{'sig': s, 'what': w} for s, w in viol]
    _, viol = check_schema(case['schema'])
    return [{'sig': s, 'what': w} for s, w in viol]
