"""
C12 - the signing check holds exactly when the schema lets that key sign that packet.

E-prog: every schema of a bounded family with signing relations (packet rule x key rule(s), name patterns of 1..2
elements (thorough: key names up to 3), constraints on own and on shared patterns in the packet rule or in the key rule,
signer alternatives and chains) is compiled by the real compiler; Checker.check(p, k) is evaluated for all ordered pairs
of names over {a,b,c} and compared with the reference (mc/ref/lvs_ref.RefSchema.check): yes iff p matches a definition,
k matches one of the rules that definition lists as signers, shared patterns equal, all of the key rule's constraints
satisfied.  Corollaries reported under their own signature: yes implies that k matches some rule; a trailing implicit
digest component on either name changes nothing.
"""
from __future__ import annotations

import itertools

from mc.core import Acc
from mc import lvsgen
from mc.ref import lvs_ref
from mc.vloop import tb_where
from checks.lvs_common import FNS, install_lark_cache, comp_name, Checker, compile_lvs, SemanticError

PROPERTY = 'C12'
DIGEST = bytes([1, 32]) + bytes(range(32))
PARAMS_DIGEST = bytes([2, 32]) + bytes(range(32, 64))


def cons_for(name, extra_pats, level):
    """constraint variants for a rule: on its own patterns, options may mention patterns of the other rule (shared)"""
    pats = [e[1] for e in name if e[0] == 'pat']
    out = [[]]
    opts_menu = [[['lit', 'a']], [['lit', 'a'], ['lit', 'b']], [['fn', '$eq', [['lit', 'b']]]]]
    for qi, q in enumerate(extra_pats):
        opts_menu.append([['pat', q]])
        if level >= 1 or qi == 0:
            opts_menu.append([['fn', '$eq', [['pat', q]]]])
    seen = []
    for p in pats:
        if p in seen:
            continue
        seen.append(p)
        for opts in opts_menu:
            if any(o == ['pat', p] for o in opts):
                continue
            out.append([[[p, opts]]])
    if len(seen) >= 1 and len(extra_pats) >= 2 and seen[0] not in extra_pats[:2]:
        # two alternative sets that differ only in which pattern the constrained one must equal
        p = seen[0]
        out.append([[[p, [['pat', extra_pats[0]]]]], [[p, [['pat', extra_pats[1]]]]]])
    if level >= 1 and len(seen) >= 1:
        p = seen[0]
        out.append([[[p, [['lit', 'a']]]], [[p, [['lit', 'b']]]]])       # two alternative sets
    return out


def schemas(tier):
    lvl = 0 if tier == 'quick' else 1
    elems = [['lit', 'a'], ['pat', 'x'], ['pat', 'y'], ['pat', '_t']]
    pnames = list(lvsgen.names([], 2, elems))
    knames = list(lvsgen.names([], 2 if tier == 'quick' else 3, elems))
    k2 = {'id': '#m', 'name': [['lit', 'b'], ['pat', 'y']], 'cons': [], 'sign': []}
    for pn in pnames:
        ppats = [e[1] for e in pn if e[0] == 'pat' and not e[1].startswith('_')]
        for pc in cons_for(pn, [], lvl):
            for kn in knames:
                kpats = [e[1] for e in kn if e[0] == 'pat' and not e[1].startswith('_')]
                for kc in cons_for(kn, [q for q in ppats if q not in kpats][:1] + [q for q in kpats][:1], lvl):
                    p = {'id': '#p', 'name': pn, 'cons': pc, 'sign': ['#k']}
                    k = {'id': '#k', 'name': kn, 'cons': kc, 'sign': []}
                    yield [p, k]                                                              # P <= K
                    if not kc or tier != 'quick':
                        yield [dict(p, sign=['#k', '#m']), k, k2]                             # alternatives
                        yield [p, dict(k, sign=['#m']), k2]                                   # chain
                    if not pc and not kc and ppats:
                        # alternative constraint sets on the packet rule; a second rule that coincides with one alternative
                        # (same name pattern, same constraints -> same tree node) and lists another signer
                        a0 = [ppats[0], [['lit', 'a']]]
                        a1 = [ppats[-1], [['lit', 'b']]]
                        yield [dict(p, cons=[[a0], [a1]]), {'id': '#q', 'name': pn, 'cons': [[a0]], 'sign': ['#m']}, k, k2]
                        yield [dict(p, cons=[[a0], [a1]]), {'id': '#o', 'name': pn, 'cons': [[a1]], 'sign': ['#m']}, k, k2]
                    if not pc and not kc and len(pn) == 1:
                        # the packet rule embeds a rule that has signers of its own (#i <= #m): those are not the packet rule's
                        inner = {'id': '#i', 'name': pn, 'cons': [], 'sign': ['#m']}
                        yield [inner, {'id': '#p', 'name': [['ref', '#i'], ['lit', 'a']], 'cons': [], 'sign': ['#k']}, k, k2]
                        yield [inner, {'id': '#p', 'name': [['lit', 'b'], ['ref', '#i']], 'cons': [], 'sign': ['#k']}, k, k2]
                    if not pc and not kc:
                        # the packet rule defined twice with different signers; a key rule referring to a sub-rule
                        yield [p, dict(p, sign=['#m'], cons=[[[ppats[0], [['lit', 'b']]]]] if ppats else []), k, k2]
                        yield [p, {'id': '#k', 'name': [['ref', '#m']] + kn[:1], 'cons': [], 'sign': []}, k2]


    # key rules (or alternative constraint sets of one key rule) that differ only in which packet pattern the key pattern must equal
    P = {'id': '#p', 'name': [['pat', 'x'], ['pat', 'y']], 'cons': [], 'sign': ['#k']}
    zx, zy = [['z', [['pat', 'x']]]], [['z', [['pat', 'y']]]]
    yield [P, {'id': '#k', 'name': [['lit', 'a'], ['pat', 'z']], 'cons': [zx, zy], 'sign': []}]
    yield [P, {'id': '#k', 'name': [['lit', 'a'], ['pat', 'z']], 'cons': [zy, zx], 'sign': []}]
    yield [dict(P, sign=['#k', '#j']), {'id': '#k', 'name': [['lit', 'a'], ['pat', 'z']], 'cons': [zx], 'sign': []},
           {'id': '#j', 'name': [['lit', 'a'], ['pat', 'z']], 'cons': [zy], 'sign': []}]
    yield [dict(P, sign=['#j']), {'id': '#k', 'name': [['lit', 'a'], ['pat', 'z']], 'cons': [zx], 'sign': []},
           {'id': '#j', 'name': [['lit', 'a'], ['pat', 'z']], 'cons': [zy], 'sign': []}]
    yield [P, {'id': '#k', 'name': [['pat', 'z'], ['pat', 'w']], 'cons': [[['z', [['pat', 'x']]], ['w', [['pat', 'y']]]], [['z', [['pat', 'y']]], ['w', [['pat', 'x']]]]], 'sign': []}]


    # a key rule whose constraint lists a pattern option next to other options, signing a packet rule that binds that pattern and one that
    # does not: the unbound option simply does not hold, the others still count
    for opts in ([['pat', 'x'], ['lit', 'a']], [['lit', 'a'], ['pat', 'x']], [['pat', 'x'], ['fn', '$eq', [['lit', 'b']]]], [['pat', 'x'], ['pat', 'y']]):
        k = {'id': '#k', 'name': [['lit', 'b'], ['pat', 'z']], 'cons': [[['z', opts]]], 'sign': []}
        yield [{'id': '#p', 'name': [['lit', 'a'], ['pat', 'y']], 'cons': [], 'sign': ['#k']}, k,
               {'id': '#q', 'name': [['lit', 'c'], ['pat', 'x']], 'cons': [], 'sign': ['#k']}]
        yield [{'id': '#p', 'name': [['lit', 'a']], 'cons': [], 'sign': ['#k']}, k]
    yield from family_schemas()


FAMILY_POOL = [('a',), ('b',), ('c',)] + list(itertools.product('ab', repeat=2)) + list(itertools.product('ab', repeat=3))


def family_schemas():
    """the feature-combination families of mc/lvsgen.py with a signing relation: a packet rule signed by the family's last rule"""
    for fam in lvsgen.families():
        if any(r['sign'] for r in fam):
            yield fam
        else:
            d = {'id': '#d', 'name': [['lit', 'c']], 'cons': [], 'sign': [fam[-1]['id']]}
            yield fam + [d]
            if len(fam) == 3:
                yield [d] + fam


def name_pool(tier):
    out = []
    for n in (1, 2):
        out.extend(itertools.product('abc', repeat=n))
    if tier == 'quick':
        out.extend([('a', 'a', 'a'), ('b', 'a', 'c'), ('a', 'b', 'b')])
    else:
        out.extend(itertools.product('abc', repeat=3))
    return out


QUICK_POOL = set(name_pool('quick'))


def check_schema(schema, tier, acc=None):
    viol = []
    text = lvs_ref.render(schema)

    def bad(clause, what):
        viol.append((f'C12|{clause}', f'{what}; schema:\n{text}'))
    try:
        model = compile_lvs(text)
        ck = Checker(model, FNS)
    except SemanticError:
        return 'rejected', viol
    except Exception as e:  # noqa
        bad(f'compile-raises:{type(e).__name__}@{tb_where(e)}', f'{e!r}')
        return 'compile-raises', viol
    # the same model after a save/load round trip, and without its optional symbol table (documented as only needed for the
    # identifiers of named patterns): verdicts must not depend on either
    others = []
    try:
        others.append(('loaded', Checker.load(ck.save(), FNS)))
        from ndn.app_support.light_versec.binary import LvsModel

        bare = LvsModel.parse(bytes(model.encode()))
        bare.symbols = []
        others.append(('no-symbols', Checker(bare, FNS)))
    except Exception as e:  # noqa
        bad(f'reload-raises:{type(e).__name__}@{tb_where(e)}', f'{e!r}')
        return 'reload-raises', viol
    try:
        # another checker of the same process, created last, gives the same function names another meaning: that is its own business
        Checker.load(ck.save(), {k: (lambda c, args: False) for k in FNS})
    except Exception as e:  # noqa
        bad(f'reload-raises:{type(e).__name__}@{tb_where(e)}', f'{e!r}')
    ref = lvs_ref.RefSchema(schema, FNS)
    pool = FAMILY_POOL if schema[-1]['id'] == '#d' or schema[0]['id'] == '#d' or schema[-1]['name'][-1] == ['lit', 'b'] and len(schema[-1]['name']) == 3 else name_pool(tier)
    names = [(t, comp_name(t)) for t in pool]
    key_matches = {}
    nyes = 0
    for (pt, pn), (kt, kn) in itertools.product(names, repeat=2):
        want = ref.check(pn, kn)
        try:
            got = bool(ck.check(list(pn), list(kn)))
        except Exception as e:  # noqa
            bad(f'check-raises:{type(e).__name__}@{tb_where(e)}', f'check(/{"/".join(pt)}, /{"/".join(kt)}) raised {e!r}')
            break
        if acc is not None:
            acc.transitions += 1
        if got:
            nyes += 1
            if kt not in key_matches:
                key_matches[kt] = any(True for _ in ck.match(list(kn)))
            if not key_matches[kt]:
                # named corollary: the key name matches no rule at all
                if not want:
                    bad('yes-for-key-matching-no-rule', f'check(/{"/".join(pt)}, /{"/".join(kt)}) = True although /{"/".join(kt)} matches no rule')
                    break
        if got != want:
            bad(f'check-differs|library={got}|reference={want}', f'check(/{"/".join(pt)}, /{"/".join(kt)}) = {got}, the schema text says {want}')
            break
        for label, c2 in (others if (tier == 'quick' or (pt in QUICK_POOL and kt in QUICK_POOL)) else ()):
            try:
                g3 = bool(c2.check(list(pn), list(kn)))
            except Exception as e:  # noqa
                bad(f'check-raises:{type(e).__name__}@{tb_where(e)}|{label}', f'check(/{"/".join(pt)}, /{"/".join(kt)}) on the {label} model raised {e!r}')
                break
            if g3 != want:
                bad(f'check-differs|{label}|library={g3}|reference={want}',
                    f'check(/{"/".join(pt)}, /{"/".join(kt)}) on the {label} model = {g3}, the schema text says {want}')
                break
        if viol:
            break
        # trailing implicit digest on either name is ignored (sampled on the pairs that say yes and on the diagonal)
        if got or pt == kt:
            try:
                g2 = bool(ck.check(list(pn) + [DIGEST], list(kn)))
                g3 = bool(ck.check(list(pn), list(kn) + [DIGEST]))
                g4 = bool(ck.check(list(pn) + [DIGEST], list(kn) + [DIGEST]))
            except Exception as e:  # noqa
                bad(f'check-raises-with-digest:{type(e).__name__}', f'{e!r}')
                break
            # a ParametersSha256Digest component (every signed Interest name ends in one) is an ordinary component for the schema
            pq = list(pn) + [PARAMS_DIGEST]
            try:
                g5 = bool(ck.check(pq, list(kn)))
                w5 = ref.check(pq, kn)
                g6 = bool(ck.check(list(pn), list(kn) + [PARAMS_DIGEST]))
                w6 = ref.check(pn, list(kn) + [PARAMS_DIGEST])
            except Exception as e:  # noqa
                bad(f'check-raises-with-params-digest:{type(e).__name__}', f'{e!r}')
                break
            if g5 != w5 or g6 != w6:
                bad('params-digest-component-not-ordinary', f'check with a trailing params-sha256 component on /{"/".join(pt)} resp. /{"/".join(kt)}: '
                                                            f'library {g5}/{g6}, schema text {w5}/{w6}')
                break
            if g2 != got or g3 != got or g4 != got:
                bad('digest-suffix-not-ignored', f'check(/{"/".join(pt)}, /{"/".join(kt)}) = {got} but {g2}/{g3}/{g4} with a trailing implicit digest '
                                                 f'on the packet name / the key name / both')
                break
    if not viol:
        # components that differ as bytes but read the same as text (a typed number in two widths): still different components; every
        # ordered pair, so that an earlier verdict on a look-alike name is there to be confused with
        V1, V1W = bytes([0x36, 1, 1]), bytes([0x36, 2, 0, 1])
        A = lvs_ref.comp('a')
        extra = [[V1], [V1W], [A, V1], [A, V1W], [V1, A], [V1W, A], [V1, V1], [V1, V1W]]
        for pn, kn in itertools.product(extra, repeat=2):
            want = ref.check(pn, kn)
            try:
                got = bool(ck.check(list(pn), list(kn)))
            except Exception as e:  # noqa
                bad(f'check-raises:{type(e).__name__}@{tb_where(e)}|look-alike-names', f'{e!r}')
                break
            if got != want:
                bad(f'check-differs|look-alike-names|library={got}|reference={want}',
                    f'check({[c.hex() for c in pn]}, {[c.hex() for c in kn]}) = {got}, the schema text says {want} (v=1 written in one and in two bytes '
                    f'are different components)')
                break
    if not viol:
        # the verdicts do not depend on the logging configuration of the process
        from mc.ndnenv import debug_logging
        sample = [(pn, kn) for (pt, pn), (kt, kn) in itertools.product(names[:6], repeat=2)]
        before = [bool(ck.check(list(pn), list(kn))) for pn, kn in sample]
        try:
            with debug_logging():
                after = [bool(ck.check(list(pn), list(kn))) for pn, kn in sample]
        except Exception as e:  # noqa
            bad(f'check-raises:{type(e).__name__}@{tb_where(e)}|debug-logging', f'{e!r}')
            after = before
        if after != before:
            i = [a != b for a, b in zip(after, before)].index(True)
            bad('check-differs|debug-logging', f'check on pair {i} of the sample answers {after[i]} with DEBUG logging enabled and {before[i]} without')
    return ('ok' if not viol else 'viol') + ('|some-yes' if nyes else '|all-no'), viol


def plan(tier, seed):
    n = sum(1 for _ in schemas(tier))
    chunk = 150 if tier == 'quick' else 400
    units = [{'lo': lo, 'hi': min(n, lo + chunk), 'tier': tier} for lo in range(0, n, chunk)]
    return {
        'units': units,
        'rule': 'program = schema with signing relations from the bounded family (complete enumeration); for each, check(p,k) for all ordered '
                'pairs of the name pool. Non-trivial = schema in which packet and key rule share a pattern or the key rule has a constraint.',
        'bounds': {'schemas': n, 'name_pool': len(name_pool(tier)), 'pairs_per_schema': len(name_pool(tier)) ** 2},
        'assumptions': ['schemas the compiler rejects with SemanticError (cross-rule pattern reference before definition) are skipped',
                        'digest-suffix clause is evaluated on the pairs answering yes and on the diagonal'],
    }


def unit(arg):
    acc = Acc()
    acc.state_hashes = None
    install_lark_cache()
    for schema in itertools.islice(schemas(arg['tier']), arg['lo'], arg['hi']):
        key, viol = check_schema(schema, arg['tier'], acc)
        acc.evaluations += 1
        acc.state_count += 1
        if key == 'rejected':
            acc.no_claim += 1
        pp = {e[1] for e in schema[0]['name'] if e[0] == 'pat'}
        kp = {e[1] for e in schema[1]['name'] if e[0] == 'pat'} if len(schema) > 1 else set()
        if (pp & kp) or schema[1]['cons']:
            acc.nontrivial += 1
        acc.outcome(f'{len(schema)}rules|{key}')
        acc.observe([lvs_ref.render(schema), key, [v[0] for v in viol]])
        for sig, what in viol:
            acc.violation(sig, what, {'schema': schema, 'tier': arg['tier']})
        if acc.evaluations % 80 == 1:
            acc.sample({'schema': lvs_ref.render(schema), 'outcome': key})
    return acc


def replay(case):
    install_lark_cache()
    _, viol = check_schema(case['schema'], case['tier'])
    return [{'sig': s, 'what': w} for s, w in viol]
