"""
C13 - ill-formed schemas and models are rejected; accepted models always terminate.

static : every static error kind (undefined rule in a name / in a signer list, reference to a temporary rule, reference
         cycles of length 1..3, signing cycles of length 1..3 incl. through rules with the same name pattern, constraint on /
         option naming / function argument naming a pattern that occurs nowhere, temporary pattern as option or argument)
         injected at every possible position of every base schema of a family -> compile_lvs + Checker must raise
         SemanticError.  Positive side: error-free schemas whose coarsened signing graph is acyclic compile, load and reload.
binary : every single-field corruption of every compiled model through the TLV model API (version, node ids, parents,
         edge destinations, signer ids, option shape, function id).  An independent checker of the six documented sanity
         rules decides whether Checker.load must raise LvsModelError; when the model loads, every match / check query over a
         name set must terminate within a step bound (no RecursionError, no unbounded loop).
"""
from __future__ import annotations

import copy
import itertools
import sys

from ndn.app_support.light_versec import binary as bny

from mc.core import Acc
from mc import lvsgen
from mc.ref import lvs_ref
from mc.vloop import tb_where
from checks.lvs_common import FNS, install_lark_cache, comp_name, claimable, Checker, compile_lvs, SemanticError, LvsModelError
from checks import c12

PROPERTY = 'C13'


def base_schemas():
    """a fixed family of well-formed schemas (with and without signing relations)"""
    out = []
    for i, s in enumerate(lvsgen.schemas('quick')):
        if i % 1201 == 0 and claimable(s):
            out.append(s)
    for i, s in enumerate(c12.schemas('quick')):
        if i % 907 == 0:
            out.append(s)
    # rules with two and three alternative signers
    out.append([{'id': '#k1', 'name': [['lit', 'a'], ['pat', 'x']], 'cons': [], 'sign': []},
                {'id': '#k2', 'name': [['lit', 'b'], ['pat', 'x']], 'cons': [], 'sign': ['#k1']},
                {'id': '#k3', 'name': [['lit', 'c']], 'cons': [], 'sign': []},
                {'id': '#d', 'name': [['lit', 'd'], ['pat', 'x']], 'cons': [], 'sign': ['#k1', '#k2']},
                {'id': '#e', 'name': [['lit', 'e'], ['pat', 'x'], ['pat', 'y']], 'cons': [], 'sign': ['#k3', '#k2', '#k1']}])
    out.append([{'id': '#site', 'name': [['lit', 'a'], ['lit', 'b']], 'cons': [], 'sign': []},
                {'id': '#root', 'name': [['ref', '#site'], ['ref', '#KEY']], 'cons': [], 'sign': []},
                {'id': '#art', 'name': [['ref', '#site'], ['lit', 'c'], ['pat', 'x']], 'cons': [], 'sign': ['#auth']},
                {'id': '#auth', 'name': [['ref', '#site'], ['pat', 'role'], ['pat', 'x'], ['ref', '#KEY']],
                 'cons': [[['role', [['lit', 'au']]]]], 'sign': ['#root']},
                {'id': '#KEY', 'name': [['lit', 'KEY'], ['pat', '_'], ['pat', '_']], 'cons': [], 'sign': []}])
    return out


def static_mutants(schema):
    """(kind, mutated schema) for every error kind at every position"""
    ids = lvs_ref.rule_ids(schema)
    for ri, r in enumerate(schema):
        for pos in range(len(r['name']) + 1):
            # undefined rule / temporary rule referenced at this position (inserted and replacing)
            for kind, ref, extra in (('undefined-rule-in-name', '#zz', []),
                                     ('temporary-rule-referenced', '#_tmp', [{'id': '#_tmp', 'name': [['lit', 'a']], 'cons': [], 'sign': []}])):
                m = copy.deepcopy(schema)
                m[ri]['name'].insert(pos, ['ref', ref])
                yield kind, extra + m
                if pos < len(r['name']):
                    m = copy.deepcopy(schema)
                    m[ri]['name'][pos] = ['ref', ref]
                    yield kind, extra + m
        for pos in range(len(r['sign']) + 1):
            m = copy.deepcopy(schema)
            m[ri]['sign'].insert(pos, '#zz')
            yield 'undefined-rule-in-signers', m
            # a temporary rule cannot be named as a signer either (defined once, and defined twice)
            m = copy.deepcopy(schema)
            m[ri]['sign'].insert(pos, '#_tmp')
            yield 'temporary-rule-in-signers', [{'id': '#_tmp', 'name': [['lit', 'k'], ['pat', '_']], 'cons': [], 'sign': []}] + m
            m = copy.deepcopy(schema)
            m[ri]['sign'].insert(pos, '#_tmp')
            yield 'temporary-rule-in-signers', m + [{'id': '#_tmp', 'name': [['lit', 'k'], ['pat', '_']], 'cons': [], 'sign': []},
                                                    {'id': '#_tmp', 'name': [['lit', 'j']], 'cons': [], 'sign': []}]
        # reference cycles through this rule
        m = copy.deepcopy(schema)
        m[ri]['name'].append(['ref', r['id']])
        yield 'reference-cycle-1', m
        m = copy.deepcopy(schema)
        m[ri]['name'].insert(0, ['ref', '#c1'])
        yield 'reference-cycle-2', m + [{'id': '#c1', 'name': [['lit', 'a'], ['ref', r['id']]], 'cons': [], 'sign': []}]
        m = copy.deepcopy(schema)
        m[ri]['name'].append(['ref', '#c1'])
        yield 'reference-cycle-3', m + [{'id': '#c1', 'name': [['ref', '#c2']], 'cons': [], 'sign': []},
                                        {'id': '#c2', 'name': [['pat', 'x'], ['ref', r['id']]], 'cons': [], 'sign': []}]
        # signing cycles
        if not r['id'].startswith('#_'):
            m = copy.deepcopy(schema)
            m[ri]['sign'] = m[ri]['sign'] + [r['id']]
            yield 'signing-cycle-1', m
            m = copy.deepcopy(schema)
            m[ri]['sign'] = m[ri]['sign'] + ['#g1']
            yield 'signing-cycle-2', m + [{'id': '#g1', 'name': [['lit', 'g'], ['pat', 'x']], 'cons': [], 'sign': [r['id']]}]
            m = copy.deepcopy(schema)
            m[ri]['sign'] = m[ri]['sign'] + ['#g1']
            yield 'signing-cycle-3', m + [{'id': '#g1', 'name': [['lit', 'g'], ['pat', 'x']], 'cons': [], 'sign': ['#g2']},
                                          {'id': '#g2', 'name': [['lit', 'h']], 'cons': [], 'sign': [r['id']]}]
            # a second rule with the same name pattern closes the cycle
            m = copy.deepcopy(schema)
            m[ri]['sign'] = m[ri]['sign'] + ['#twin']
            m[ri]['cons'] = []
            yield 'signing-cycle-same-pattern', m + [{'id': '#twin', 'name': copy.deepcopy(r['name']), 'cons': [], 'sign': [r['id']]}]
        # unknown patterns / temporaries in constraints: added as a further term to every constraint set, and as a new set
        pats = [e[1] for e in r['name'] if e[0] == 'pat' and not e[1].startswith('_')]
        target = pats[0] if pats else None
        bad_terms = [('constraint-on-unknown-pattern', ['zz', [['lit', 'a']]]),
                     ('constraint-on-unknown-temporary-pattern', ['_zz', [['lit', 'a']]])]
        if target:
            bad_terms += [('option-names-unknown-pattern', [target, [['lit', 'a'], ['pat', 'zz']]]),
                          ('argument-names-unknown-pattern', [target, [['fn', '$eq', [['pat', 'zz']]]]]),
                          ('temporary-pattern-as-option', [target, [['pat', '_t']]]),
                          ('temporary-pattern-as-argument', [target, [['fn', '$eq', [['lit', 'a'], ['pat', '_t']]]]])]
        for kind, term in bad_terms:
            sets = r['cons'] or []
            for si in range(len(sets)):
                for pos in range(len(sets[si]) + 1):
                    m = copy.deepcopy(schema)
                    m[ri]['cons'][si].insert(pos, term)
                    yield kind, m
            m = copy.deepcopy(schema)
            m[ri]['cons'] = (m[ri]['cons'] or []) + [[term]]
            yield kind, m


def coarse_acyclic(schema):
    """signing graph over coarsened name patterns (length + literals) is acyclic"""
    try:
        ref = lvs_ref.RefSchema(schema, FNS)
    except RecursionError:
        return False
    return _acyclic(schema, ref, lambda ch: tuple(e[1] if e[0] == 'lit' else '*' for e in ch[0])) or _acyclic(schema, ref, fine_key)


def fine_key(ch):
    """a name pattern as the statement means it: literals, named patterns by name together with the constraints put on them; temporaries
    are all taken as alike (so this only ever merges more than the compiler does)"""
    els, cons = ch
    out = []
    for e in els:
        if e[0] == 'lit':
            out.append(e[1])
        else:
            mine = sorted(repr(opts) for tgt, opts in cons if tgt == (e[0], e[1]))
            out.append((e[0], e[1] if e[0] == 'pat' else '*', tuple(mine)))
    return tuple(out)


def _acyclic(schema, ref, key):
    edges = {}
    for r in schema:
        for ch in lvs_ref.expand([r] + [x for x in schema if x['id'] != r['id']], r['id']):
            for sid in r.get('sign') or []:
                for kch in ref.chains.get(sid, []):
                    edges.setdefault(key(ch), set()).add(key(kch))
    color = {}

    def dfs(n):
        color[n] = 1
        for m in edges.get(n, ()):
            if color.get(m) == 1 or (color.get(m) is None and not dfs(m)):
                return False
        color[n] = 2
        return True
    return all(dfs(n) for n in list(edges) if color.get(n) is None)


def run_static(kind, schema):
    text = lvs_ref.render(schema)
    try:
        model = compile_lvs(text)
        Checker(model, FNS)
    except SemanticError:
        return []
    except Exception as e:  # noqa
        return [(f'C13|static|{kind}|raises:{type(e).__name__}@{tb_where(e)}', f'{kind}: raised {e!r} instead of SemanticError; schema:\n{text}')]
    return [(f'C13|static|{kind}|accepted', f'{kind}: the ill-formed schema compiled and a checker was built; schema:\n{text}')]


def run_positive(schema):
    text = lvs_ref.render(schema)
    try:
        ck = Checker(compile_lvs(text), FNS)
        ck2 = Checker.load(ck.save(), FNS)
        ck2.root_of_trust()
    except Exception as e:  # noqa
        return [(f'C13|positive|{type(e).__name__}@{tb_where(e)}', f'error-free schema rejected: {e!r}; schema:\n{text}')]
    # a compiled model is the caller's object: wrecking it must not affect the next compilation of the same text
    try:
        first = compile_lvs(text)
        first.version = 0xFFFF
        if first.nodes:
            first.nodes[0].parent = 7
            del first.nodes[1:]
        again = compile_lvs(text)
        Checker(again, FNS)
        if bytes(again.encode()) != bytes(ck.save()):
            return [('C13|positive|second-compilation-differs', f'compiling the same text again gives another model; schema:\n{text}')]
    except Exception as e:  # noqa
        return [(f'C13|positive|second-compilation|{type(e).__name__}@{tb_where(e)}',
                 f'after the caller modified the first compiled model, compiling the same error-free text again fails: {e!r}; schema:\n{text}')]
    # rules may be written in any order: when every rule id is defined once, every order of the definitions is the same schema
    ids = [r['id'] for r in schema]
    if len(set(ids)) == len(ids) and len(ids) > 1:
        orders = list(itertools.permutations(schema)) if len(ids) <= 3 else [list(reversed(schema)), schema[1:] + schema[:1]]
        for perm in orders[1:] if len(ids) <= 3 else orders:
            t2 = lvs_ref.render(list(perm))
            try:
                Checker.load(Checker(compile_lvs(t2), FNS).save(), FNS)
            except Exception as e:  # noqa
                return [(f'C13|positive|reordered|{type(e).__name__}@{tb_where(e)}',
                         f'error-free schema rejected when its rule definitions are written in another order: {e!r}; schema:\n{t2}')]
    return []


# -- binary corruption ---------------------------------------------------------------------------------------
def documented_rules_broken(model):
    """independent evaluation of the six documented sanity rules on the nodes reachable from StartId"""
    broken = set()
    v = model.version
    if v is None or not (bny.MIN_SUPPORTED_VERSION <= v <= bny.VERSION):
        broken.add('version')
    nodes = model.nodes or []
    n = len(nodes)
    start = model.start_id
    if start is None or start >= n:
        return broken | {'no-claim:start-id'}
    seen = set()
    stack = [start]
    while stack:
        cur = stack.pop()
        if cur in seen:
            continue
        seen.add(cur)
        node = nodes[cur]
        if node.id != cur:
            broken.add('node-id')
        for e in list(node.v_edges or []) + list(node.p_edges or []):
            if e.dest is None or e.dest >= n:
                broken.add('edge-destination')
                continue
            if nodes[e.dest].parent != cur:
                broken.add('parent-link')
            stack.append(e.dest)
        for s in node.sign_cons or []:
            if s >= n:
                broken.add('signer-id')
        for pe in node.p_edges or []:
            for cons in pe.cons_sets or []:
                for op in cons.options or []:
                    cnt = [op.value is not None, op.tag is not None, op.fn is not None].count(True)
                    if cnt != 1:
                        broken.add('option-shape')
    return broken


def model_edits(model_bytes):
    """(label, edited model object) for every single-field corruption"""
    def fresh():
        return bny.LvsModel.parse(model_bytes)
    base = fresh()
    n = len(base.nodes)
    for v in (None, 0, bny.MIN_SUPPORTED_VERSION - 1, bny.VERSION + 1):
        m = fresh()
        m.version = v
        yield f'version={v}', m
    for v in (None, n, n + 5):
        m = fresh()
        m.start_id = v
        yield f'start_id={v}', m
    for i in range(n):
        for v in {(i + 1) % n if n > 1 else 7, n + 3}:
            m = fresh()
            m.nodes[i].id = v
            yield f'node[{i}].id={v}', m
        for v in {None, i, (i + 1) % n, 0}:
            if base.nodes[i].parent == v:
                continue
            m = fresh()
            m.nodes[i].parent = v
            yield f'node[{i}].parent={v}', m
        node = base.nodes[i]
        anc = ancestors(base, i)
        for kind, edges in (('v', node.v_edges), ('p', node.p_edges)):
            for j, e in enumerate(edges):
                for v in [None, n, n + 9, i] + anc[:2] + [x for x in range(n) if x not in anc and x != e.dest and x != i][:2]:
                    m = fresh()
                    getattr(m.nodes[i], f'{kind}_edges')[j].dest = v
                    yield f'node[{i}].{kind}_edge[{j}].dest={v}', m
        for j, e in enumerate(node.v_edges):
            m = fresh()
            m.nodes[i].v_edges[j].value = None
            yield f'node[{i}].v_edge[{j}].value=None', m
        for j, e in enumerate(node.p_edges):
            m = fresh()
            m.nodes[i].p_edges[j].tag = None
            yield f'node[{i}].p_edge[{j}].tag=None', m
            for c, cons in enumerate(e.cons_sets):
                for o, op in enumerate(cons.options):
                    m = fresh()
                    t = m.nodes[i].p_edges[j].cons_sets[c].options[o]
                    t.value, t.tag, t.fn = None, None, None
                    yield f'node[{i}].p_edge[{j}].cons[{c}].opt[{o}]=none', m
                    m = fresh()
                    t = m.nodes[i].p_edges[j].cons_sets[c].options[o]
                    if t.value is None:
                        t.value = b'\x08\x01z'
                    else:
                        t.tag = 1
                    yield f'node[{i}].p_edge[{j}].cons[{c}].opt[{o}]=two', m
                    # ... the second alternative being the tag numbered 0 / the empty value
                    for extra in ('tag0',):
                        m = fresh()
                        t = m.nodes[i].p_edges[j].cons_sets[c].options[o]
                        if extra == 'tag0' and t.tag is None:
                            t.tag = 0
                        elif extra == 'empty-value' and t.value is None:
                            t.value = b''
                        else:
                            continue
                        yield f'node[{i}].p_edge[{j}].cons[{c}].opt[{o}]=two:{extra}', m
                    if op.fn is not None:
                        m = fresh()
                        m.nodes[i].p_edges[j].cons_sets[c].options[o].fn.fn_id = ''
                        yield f'node[{i}].p_edge[{j}].cons[{c}].opt[{o}].fn_id=empty', m
        for j, s in enumerate(node.sign_cons):
            for v in (n, n + 4, i):
                m = fresh()
                m.nodes[i].sign_cons[j] = v
                yield f'node[{i}].sign_cons[{j}]={v}', m
        m = fresh()
        m.nodes[i].sign_cons = list(m.nodes[i].sign_cons) + [n + 1]
        yield f'node[{i}].sign_cons+=[{n + 1}]', m


def ancestors(model, i):
    out = []
    cur = model.nodes[i].parent
    guard = 0
    while cur is not None and cur < len(model.nodes) and guard < 50:
        out.append(cur)
        cur = model.nodes[cur].parent
        guard += 1
    return out


class StepLimit(Exception):
    pass


_cnt = [0, 0]


def _tracer(frame, event, arg):
    if 'light_versec' not in frame.f_code.co_filename:
        return None

    def local(frame, event, arg):
        if event == 'line':
            _cnt[0] += 1
            if _cnt[0] > _cnt[1]:
                raise StepLimit()
        return local
    return local


def bounded(fn, limit=150_000):
    _cnt[0], _cnt[1] = 0, limit
    sys.settrace(_tracer)
    try:
        return fn()
    finally:
        sys.settrace(None)


QUERY = [comp_name(t) for n in range(0, 4) for t in itertools.product('abc', repeat=n)]


def run_binary(model_bytes, label, edited):
    viol = []
    try:
        wire = bytes(edited.encode())
    except Exception:  # noqa
        return viol, 'unencodable'
    try:
        reparsed = bny.LvsModel.parse(wire)
    except Exception:  # noqa
        return viol, 'unparsable'
    broken = documented_rules_broken(reparsed)
    field = label.split('.')[-1].split('=')[0].split('[')[0]
    try:
        ck = bounded(lambda: Checker.load(wire, FNS))
        loaded = True
    except LvsModelError:
        loaded = False
    except SemanticError:
        loaded = False          # cyclic signing relations are reported through the compiler's error class
        if broken - {'no-claim:start-id'}:
            # ... but a broken documented sanity rule has its own documented error
            viol.append((f"C13|binary|load-raises:SemanticError|{'+'.join(sorted(broken - {'no-claim:start-id'}))}|{field}",
                         f'Checker.load raised the schema error instead of LvsModelError after edit {label} '
                         f'(rules broken: {sorted(broken)})'))
    except StepLimit:
        viol.append((f'C13|binary|load-does-not-terminate|{field}', f'Checker.load exceeded the step bound after edit {label}'))
        return viol, 'load-steps'
    except RecursionError:
        viol.append((f'C13|binary|load-raises:RecursionError|{field}', f'Checker.load raised RecursionError after edit {label} (rules broken: {sorted(broken)})'))
        return viol, 'load-recursion'
    except Exception as e:  # noqa
        if broken - {'no-claim:start-id'}:
            viol.append((f'C13|binary|load-raises:{type(e).__name__}|{field}', f'Checker.load raised {e!r} instead of LvsModelError after edit {label} '
                                                                                f'(rules broken: {sorted(broken)})'))
        return viol, 'load-other-exception'
    claim = broken - {'no-claim:start-id'}
    if loaded and claim:
        viol.append((f"C13|binary|accepted|{'+'.join(sorted(claim))}|{field}", f'model loads although the documented sanity rule(s) {sorted(claim)} are broken by edit {label}'))
    if loaded:
        # every query terminates
        for nm in QUERY:
            try:
                bounded(lambda: list(ck.match(list(nm))))
            except StepLimit:
                viol.append((f'C13|binary|match-does-not-terminate|{field}', f'match on a loaded model exceeded the step bound after edit {label} (rules broken: {sorted(broken)})'))
                break
            except RecursionError:
                viol.append((f'C13|binary|match-raises:RecursionError|{field}', f'after edit {label}'))
                break
            except Exception:  # noqa
                pass
        else:
            for p, k in itertools.product(QUERY[1:13], repeat=2):
                try:
                    bounded(lambda: ck.check(list(p), list(k)))
                except StepLimit:
                    viol.append((f'C13|binary|check-does-not-terminate|{field}', f'check on a loaded model exceeded the step bound after edit {label}'))
                    break
                except RecursionError:
                    viol.append((f'C13|binary|check-raises:RecursionError|{field}', f'after edit {label}'))
                    break
                except Exception:  # noqa
                    pass
    return viol, ('loaded' if loaded else 'rejected') + ('|rules-broken' if claim else '|rules-ok')


def plan(tier, seed):
    install_lark_cache()
    bases = base_schemas()
    units = [{'kind': 'static', 'idx': i} for i in range(len(bases))]
    units += [{'kind': 'positive', 'lo': lo, 'tier': tier} for lo in range(0, 16)]
    units.append({'kind': 'positive', 'lo': 0, 'tier': tier, 'families': True})
    units += [{'kind': 'binary', 'idx': i} for i in range(len(bases))]
    return {
        'units': units,
        'rule': 'static: (base schema, error kind, position); positive: error-free schema; binary: (compiled base model, single-field edit). '
                'Non-trivial = every static and binary case; positive cases with signing relations.',
        'bounds': {'base_schemas': len(bases), 'query_names': len(QUERY), 'step_bound_per_query': 150000},
        'assumptions': ['positive side only claims schemas whose constraints name patterns of their own rule and whose coarsened signing graph is acyclic',
                        'binary edits that break none of the six documented rules (e.g. a signing cycle, a missing StartId) carry no exception-class claim',
                        'documented rules are evaluated on the nodes reachable from StartId'],
    }


def unit(arg):
    acc = Acc()
    acc.state_hashes = None
    install_lark_cache()
    if arg['kind'] == 'static':
        base = base_schemas()[arg['idx']]
        for kind, m in static_mutants(base):
            v = run_static(kind, m)
            acc.evaluations += 1
            acc.state_count += 1
            acc.nontrivial += 1
            acc.transitions += 1
            acc.outcome(f"static|{kind}|{'rejected' if not v else 'viol'}")
            acc.observe([kind, lvs_ref.render(m), [x[0] for x in v]])
            for sig, what in v:
                acc.violation(sig, what, {'kind': 'static', 'error': kind, 'schema': m})
        acc.sample({'base_schema': lvs_ref.render(base), 'error_kinds': sorted({k for k, _ in static_mutants(base)})})
    elif arg['kind'] == 'positive':
        srcs = itertools.chain(lvsgen.schemas('quick'), c12.schemas('quick'))
        if arg.get('families'):
            srcs = list(lvsgen.families()) + list(c12.family_schemas())
            # a rule expanded into two chains (it embeds a rule defined twice) next to rules that name each chain's pattern with
            # signers of their own: x/p/f <- {root, k}; k <- y/p/f; y/p/f <- root - no cycle
            L, P = (lambda v: ['lit', v]), (lambda v: ['pat', v])       # noqa
            for second_sign in ([], ['#root']):
                srcs.append([{'id': '#root', 'name': [L('c')], 'cons': [], 'sign': []},
                             {'id': '#site', 'name': [L('a'), P('x')], 'cons': [], 'sign': []},
                             {'id': '#site', 'name': [L('b'), P('x')], 'cons': [], 'sign': []},
                             {'id': '#a', 'name': [['ref', '#site'], L('a')], 'cons': [], 'sign': ['#root']},
                             {'id': '#b', 'name': [L('a'), P('x'), L('a')], 'cons': [], 'sign': ['#k']},
                             {'id': '#c', 'name': [L('b'), P('x'), L('a')], 'cons': [], 'sign': second_sign},
                             {'id': '#k', 'name': [L('c'), L('c'), P('y')], 'cons': [], 'sign': ['#c']}])
            # models with more than 256 and more than 65536 / 255 nodes (node ids in two bytes)
            for width, depth in ((60, 5), (130, 3)):
                srcs.append([{'id': f'#w{i}', 'name': [['lit', f'w{i}']] + [['lit', 'abcde'[j]] for j in range(depth - 1)] + [['pat', 'x']],
                              'cons': [], 'sign': ([] if i == 0 else [f'#w{i - 1}'])} for i in range(width)])
        for i, s in enumerate(srcs):
            if not arg.get('families') and (i % 16 != arg['lo'] or i % (3 if arg['tier'] == 'thorough' else 12) != arg['lo'] % 3):
                continue
            if not claimable(s) or not coarse_acyclic(s):
                acc.no_claim += 1
                continue
            v = run_positive(s)
            acc.evaluations += 1
            acc.state_count += 1
            acc.transitions += 3
            if any(r['sign'] for r in s):
                acc.nontrivial += 1
            acc.outcome(f"positive|{'ok' if not v else 'viol'}")
            acc.observe([lvs_ref.render(s), [x[0] for x in v]])
            for sig, what in v:
                acc.violation(sig, what, {'kind': 'positive', 'schema': s})
        acc.sample({'positive_stride': arg['lo']})
    else:
        base = base_schemas()[arg['idx']]
        try:
            wire = bytes(compile_lvs(lvs_ref.render(base)).encode())
        except Exception:  # noqa
            return acc
        for label, edited in model_edits(wire):
            v, key = run_binary(wire, label, edited)
            acc.evaluations += 1
            acc.state_count += 1
            acc.nontrivial += 1
            acc.transitions += 2
            acc.outcome(f'binary|{key}')
            acc.observe([arg['idx'], label, key, [x[0] for x in v]])
            for sig, what in v:
                acc.violation(sig, what + f'; schema:\n{lvs_ref.render(base)}', {'kind': 'binary', 'idx': arg['idx'], 'label': label})
        acc.sample({'base_schema': lvs_ref.render(base), 'last_edit': label, 'outcome': key})
    return acc


def replay(case):
    install_lark_cache()
    if case['kind'] == 'static':
        v = run_static(case['error'], case['schema'])
    elif case['kind'] == 'positive':
        v = run_positive(case['schema'])
    else:
        base = base_schemas()[case['idx']]
        wire = bytes(compile_lvs(lvs_ref.render(base)).encode())
        v = []
        for label, edited in model_edits(wire):
            if label == case['label']:
                v, _ = run_binary(wire, label, edited)
    return [{'sig': s, 'what': w} for s, w in v]
