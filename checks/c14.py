"""
C14 - the schema validator accepts exactly packets with a valid chain to the anchor.

E-sched on the legacy NDNApp (virtual loop, simulated certificate producer):
  chains   : hierarchies anchor -> 0..3 intermediate certificates -> packet (depth 1..4), key types EC P-256 / RSA-2048 per level
             (fixture keys, certificates made by the real self_sign / derive_cert), two schemas (linear chain; chain with an
             alternative signer); every deviation at every link: issuer not allowed by the schema (signature genuine), signature
             bit flipped, certificate carrying another key, certificate missing (timeout), Nack on fetch, no SignatureInfo,
             no KeyLocator, KeyLocator with a digest, KeyLocator pointing at the element itself / a 2-cycle.  Verdict must be True
             iff there is no deviation; certificate Interests sent = exactly the certificates needed, each at most once.
  construct: anchor name outside the roots of trust, anchor with a broken self-signature, missing user function -> ValueError.
  isolation: two validator instances (different anchors, default arguments) x packets valid under A only / B only / neither;
             all orders of <= 4 validations; every verdict must equal the verdict of the same validation on fresh instances.
"""
from __future__ import annotations

import hashlib

import datetime as dt
import itertools

import ndn.encoding as enc
from ndn.app_support import security_v2 as sv2
from ndn.app_support.light_versec import compile_lvs, Checker, lvs_validator, DEFAULT_USER_FNS
from ndn.security import Sha256WithEcdsaSigner, Sha256WithRsaSigner, DigestSha256Signer, HmacSha256Signer

from mc.core import Acc
from mc.vloop import VLoop, tb_where, HorizonExceeded
from mc.ndnenv import HFace, FRONTENDS, owned_env
from mc.seams import owned_random, key_der, pub_der
from mc.ref import tlv_strict as ts
from mc.ref import ndn_strict as ns
from checks.lvs_common import install_lark_cache

PROPERTY = 'C14'

SCHEMA_LINEAR = r'''
#site: "t"
#KEY: "KEY"/_/_/_
#anchor: #site/#KEY
#l1: #site/"l1"/#KEY <= #anchor
#l2: #site/"l1"/"l2"/#KEY <= #l1
#l3: #site/"l1"/"l2"/"l3"/#KEY <= #l2
#other: #site/"other"/#KEY <= #anchor
#d1: #site/"data"/"d1"/x <= #anchor
#d2: #site/"data"/"d2"/x <= #l1
#d3: #site/"data"/"d3"/x <= #l2
#d4: #site/"data"/"d4"/x <= #l3
'''
SCHEMA_ALT = SCHEMA_LINEAR.replace('#d2: #site/"data"/"d2"/x <= #l1', '#d2: #site/"data"/"d2"/x <= #l1 | #anchor') \
    .replace('#l2: #site/"l1"/"l2"/#KEY <= #l1', '#l2: #site/"l1"/"l2"/#KEY <= #l1 | #anchor')
SCHEMAS = {'linear': SCHEMA_LINEAR, 'alt': SCHEMA_ALT}
LEVEL_PREFIX = ['/t', '/t/l1', '/t/l1/l2', '/t/l1/l2/l3']
DEVIATIONS = ['hmac-with-public-bits', 'unknown-signature-type', 'issuer-not-allowed', 'bad-signature', 'substituted-key', 'missing', 'nack', 'no-siginfo', 'no-keylocator',
              'keylocator-digest', 'self-loop', 'two-cycle', 'locator-full-name', 'locator-wrong-digest', 'anchor-named-forgery', 'locator-type-variant']
VALID_VARIANTS = ('locator-full-name',)       # not deviations at all: the chain stays valid
KEYS = {'ec': ['ec256_0', 'ec256_1', 'ec256_2', 'ec256_3', 'ec256_4'], 'rsa': ['rsa2048_0', 'rsa2048_1', 'rsa2048_2', 'rsa2048_3'],
        'ed': ['ed25519_0', 'ed25519_1']}


def signer_for(keyname, locator):
    if keyname.startswith('ed'):
        from ndn.security import Ed25519Signer
        return Ed25519Signer(locator, key_der(keyname))
    if keyname.startswith('ec'):
        return Sha256WithEcdsaSigner(locator, key_der(keyname))
    return Sha256WithRsaSigner(locator, key_der(keyname))


class Clock:
    def __init__(self):
        self.t = 1_700_000_000.0

    def time(self):
        self.t += 0.001
        return self.t


class Hierarchy:
    """anchor + intermediates + packet, with an optional deviation at link `at` (0 = the packet, k = certificate of level depth-k ...)"""

    def __init__(self, depth, types, deviation=None, at=None, keyset=0, tag='h', kid_base=0):
        self.depth = depth
        self.kid_base = kid_base
        self.store = {}          # cert name bytes -> wire
        self.nack = set()
        with owned_env(clock=Clock(), seed=14):
            with owned_random(('c14', depth, tuple(types), deviation, at, keyset)):
                self.build(depth, types, deviation, at, keyset, tag)

    def final_cert(self, name, cert):
        return self.store.get(bytes(enc.Name.to_bytes(name)), bytes(cert))

    def full_name(self, name, cert, dev, level):
        """the certificate named the other legal way: its name followed by the digest of the whole certificate (a wrong one for the deviation)"""
        digest = hashlib.sha256(bytes(cert)).digest()
        if dev == 'locator-wrong-digest':
            digest = bytes([digest[0] ^ 1]) + digest[1:]
        full = list(name) + [enc.Component.from_bytes(digest, enc.Component.TYPE_IMPLICIT_SHA256)]
        if level > 0 and dev == 'locator-full-name':
            self.store[bytes(enc.Name.to_bytes(full))] = bytes(cert)      # the network answers a full name with exactly that packet
        return full

    @staticmethod
    def type_variant(name):
        """the certificate name with its last component (the version, a typed component) turned into a generic component with the
        same value octets: another name, under which nothing was ever published"""
        last = name[-1]
        return list(name[:-1]) + [enc.Component.from_bytes(enc.Component.get_value(last), enc.Component.TYPE_GENERIC)]

    def keyname(self, level, types, keyset):
        t = types[level]
        pool = KEYS[t]
        return pool[(level + keyset) % len(pool)]

    def build(self, depth, types, deviation, at, keyset, tag):
        start = dt.datetime(2024, 1, 1)
        # level 0 = anchor ... level depth-1 = signer of the packet
        kn = [enc.Name.from_str(LEVEL_PREFIX[lv] + f'/KEY/%{self.kid_base + lv + 1:02X}') for lv in range(depth)]
        keys = [self.keyname(lv, types, keyset) for lv in range(depth)]
        certs = [None] * depth
        names = [None] * depth
        a_signer = signer_for(keys[0], kn[0])
        names[0], certs[0] = sv2.self_sign(kn[0], pub_der(keys[0]), a_signer)
        self.anchor = bytes(certs[0])
        self.anchor_name = names[0]
        # element index: 0 = packet, j >= 1 = certificate of level depth-j  (so link j is "element j signed by level depth-j-1")
        dev_level = None if deviation is None else depth - at         # level whose certificate (or the packet if at == 0) deviates
        extra = {}
        if deviation == 'issuer-not-allowed':
            # a key under /t/other, certified by the anchor (genuine), signs the deviating element
            okn = enc.Name.from_str('/t/other/KEY/%09')
            okey = 'ec256_5'
            oname, ocert = sv2.derive_cert(okn, 'anchor', pub_der(okey), signer_for(keys[0], names[0]), start, 3600 * 24)
            self.store[enc.Name.to_bytes(oname)] = bytes(ocert)
            extra['other'] = (okey, oname)
        for lv in range(1, depth):
            issuer_key, issuer_cert_name = keys[lv - 1], names[lv - 1]
            subject_pub = pub_der(keys[lv])
            signer = signer_for(issuer_key, issuer_cert_name)
            dev = deviation if (dev_level == lv and at >= 1) else None
            if dev in ('locator-full-name', 'locator-wrong-digest'):
                signer = signer_for(issuer_key, self.full_name(names[lv - 1], certs[lv - 1], dev, lv - 1))
            if dev == 'locator-type-variant':
                signer = signer_for(issuer_key, self.type_variant(names[lv - 1]))
            if dev == 'issuer-not-allowed':
                signer = signer_for(extra['other'][0], extra['other'][1])
            elif dev == 'substituted-key':
                subject_pub = pub_der('ec256_5' if keys[lv] != 'ec256_5' else 'ec256_4')
            elif dev == 'no-keylocator':
                signer = DigestSha256Signer()
            elif dev == 'keylocator-digest':
                signer = KeyDigestSigner(signer)
            elif dev == 'unknown-signature-type':
                signer = OddTypeSigner(signer)
            elif dev == 'hmac-with-public-bits':
                # anybody can compute an HMAC keyed with the (public) key bits of the named certificate
                signer = HmacSha256Signer(issuer_cert_name, pub_der(issuer_key))
            name, cert = sv2.derive_cert(kn[lv], f'i{lv}', subject_pub, signer, start, 3600 * 24)
            if dev == 'self-loop':
                name, cert = sv2.derive_cert(kn[lv], f'i{lv}', subject_pub, SelfLocatorSigner(signer_for(keys[lv], kn[lv]), kn[lv], f'i{lv}'), start, 3600 * 24)
            if dev == 'two-cycle':
                # the issuer's certificate names this certificate as its own signer
                pass
            cert = bytes(cert)
            if dev == 'bad-signature':
                cert = cert[:-3] + bytes([cert[-3] ^ 0x40]) + cert[-2:]
            if dev == 'no-siginfo':
                r = ns.read_data(cert)
                top = ts.read_single(cert)
                kids = [c.wire for c in top.children() if c.typ not in (0x16, 0x17)]
                cert = ts.tlv(6, b''.join(kids))
            names[lv], certs[lv] = name, cert
            if dev == 'missing':
                pass
            elif dev == 'nack':
                self.nack.add(bytes(enc.Name.to_bytes(name)))
            else:
                self.store[bytes(enc.Name.to_bytes(name))] = cert
        if deviation == 'two-cycle' and at >= 1 and depth >= 2:
            # certificate of dev_level is signed by a key X whose certificate is signed by dev_level's key
            lv = dev_level
            xkn = enc.Name.from_str(LEVEL_PREFIX[max(lv - 1, 0)] + '/KEY/%77')
            xkey = 'ec256_5'
            xname, xcert = sv2.derive_cert(xkn, 'cyc', pub_der(xkey), signer_for(keys[lv], names[lv]), start, 3600 * 24)
            name, cert = sv2.derive_cert(kn[lv], f'i{lv}', pub_der(keys[lv]), signer_for(xkey, xname), start, 3600 * 24)
            self.store.pop(bytes(enc.Name.to_bytes(names[lv])), None)
            names[lv] = name
            self.store[bytes(enc.Name.to_bytes(name))] = bytes(cert)
            self.store[bytes(enc.Name.to_bytes(xname))] = bytes(xcert)
        # the packet, signed by the last level (with the possibly replaced certificate name)
        pname = f'/t/data/d{depth}/{tag}'
        signer = signer_for(keys[depth - 1], names[depth - 1])
        dev = deviation if at == 0 else None
        if dev == 'issuer-not-allowed':
            signer = signer_for(extra['other'][0], extra['other'][1])
        elif dev == 'no-keylocator':
            signer = DigestSha256Signer()
        elif dev == 'keylocator-digest':
            signer = KeyDigestSigner(signer)
        elif dev == 'unknown-signature-type':
            signer = OddTypeSigner(signer)
        elif dev == 'hmac-with-public-bits':
            signer = HmacSha256Signer(names[depth - 1], pub_der(keys[depth - 1]))
        elif dev in ('self-loop', 'two-cycle'):
            signer = signer_for(keys[depth - 1], pname)           # the packet names itself as its key
        elif dev in ('locator-full-name', 'locator-wrong-digest'):
            signer = signer_for(keys[depth - 1], self.full_name(names[depth - 1], self.final_cert(names[depth - 1], certs[depth - 1]), dev, depth - 1))
        elif dev == 'no-siginfo':
            signer = None
        elif dev == 'locator-type-variant':
            signer = signer_for(keys[depth - 1], self.type_variant(names[depth - 1]))
        elif dev == 'anchor-named-forgery':
            # a Data packet that carries the trust anchor's own name and names the anchor as its key, made with somebody else's key
            pname = enc.Name.to_str(names[0])
            signer = signer_for('ec256_5' if keys[0] != 'ec256_5' else 'ec256_4', names[0])
        pkt = bytes(enc.make_data(pname, enc.MetaInfo(freshness_period=1000), b'payload-' + tag.encode(), signer))
        if dev == 'bad-signature':
            pkt = pkt[:-3] + bytes([pkt[-3] ^ 0x40]) + pkt[-2:]
        if dev == 'substituted-key':
            # packet signed by a different private key than the one certified under the named certificate
            other = 'ec256_5' if keys[depth - 1] != 'ec256_5' else 'ec256_4'
            pkt = bytes(enc.make_data(pname, enc.MetaInfo(freshness_period=1000), b'payload-' + tag.encode(), signer_for(other, names[depth - 1])))
        if dev in ('missing', 'nack'):
            # the certificate the packet names cannot be retrieved (only meaningful when it is not the anchor)
            if depth >= 2:
                nm = bytes(enc.Name.to_bytes(names[depth - 1]))
                self.store.pop(nm, None)
                if dev == 'nack':
                    self.nack.add(nm)
        self.packet = pkt
        self.cert_names = [bytes(enc.Name.to_bytes(n)) for n in names]
        self.applicable = True
        if deviation in ('missing', 'nack') and at == 0 and depth < 2:
            self.applicable = False
        if deviation in ('two-cycle',) and at >= 1 and depth < 2:
            self.applicable = False
        if deviation == 'anchor-named-forgery' and at != 0:
            self.applicable = False


class KeyDigestSigner(enc.Signer):
    """wraps a signer; announces a KeyDigest instead of a name in the KeyLocator"""

    def __init__(self, inner):
        self.inner = inner

    def write_signature_info(self, si):
        self.inner.write_signature_info(si)
        si.key_locator = enc.KeyLocator()
        si.key_locator.key_digest = b'\x00' * 32

    def get_signature_value_size(self):
        return self.inner.get_signature_value_size()

    def write_signature_value(self, wire, contents):
        return self.inner.write_signature_value(wire, contents)


class OddTypeSigner(enc.Signer):
    """keeps the key locator of the wrapped signer but announces a signature type the validator cannot verify"""

    def __init__(self, inner, sigtype=200):
        self.inner, self.sigtype = inner, sigtype

    def write_signature_info(self, si):
        self.inner.write_signature_info(si)
        si.signature_type = self.sigtype

    def get_signature_value_size(self):
        return 8

    def write_signature_value(self, wire, contents):
        wire[:] = b'\x00' * 8
        return 8


class SelfLocatorSigner(enc.Signer):
    """signs with its own key and names (a prefix of) the certificate being issued as key locator: a self-issued intermediate"""

    def __init__(self, inner, key_name, issuer):
        self.inner = inner
        self.loc = key_name + [enc.Component.from_str(issuer)]

    def write_signature_info(self, si):
        self.inner.write_signature_info(si)
        si.key_locator = enc.KeyLocator()
        si.key_locator.name = self.loc

    def get_signature_value_size(self):
        return self.inner.get_signature_value_size()

    def write_signature_value(self, wire, contents):
        return self.inner.write_signature_value(wire, contents)


class Net:
    """application + certificate producer"""

    def __init__(self):
        self.loop = VLoop()
        self.loop.enter()
        self.env = owned_env(self.loop)
        self.env.__enter__()
        self.face = HFace()
        self.app = FRONTENDS['legacy'].make_app(self.face)
        self.loop.create_task(self.app.main_loop())
        self.loop.drain()
        self.stores = []
        self.nacks = set()
        self.requests = []
        self.face.on_send = self.on_send

    def serve(self, h: Hierarchy):
        self.stores.append(h.store)
        self.nacks |= h.nack

    def on_send(self, wire):
        r = ns.read_interest(wire)
        nm = ts.tlv(7, b''.join(r['name']))
        self.requests.append(nm)
        if nm in self.nacks:
            self.face.deliver(bytes(enc.make_network_nack(wire, 150)))
            return
        for st in self.stores:
            if nm in st:
                if nm in getattr(self, 'hold', ()):
                    self.held.append(st[nm])        # this answer is slow: delivered when the harness releases it
                    return
                self.face.deliver(st[nm])
                return

    def validate(self, validator, pkt):
        out = {}

        async def run():
            try:
                name, meta, content, sig = enc.parse_data(pkt)
                out['v'] = await validator(name, sig)
            except BaseException as e:  # noqa
                out['v'] = f'raises:{type(e).__name__}@{tb_where(e)}'
        before = len(self.requests)
        t = self.loop.create_task(run())
        self.loop.settle()
        out['requests'] = self.requests[before:]
        out['done'] = t.done()
        return out

    def close(self):
        try:
            self.app.shutdown()
            self.loop.settle()
        finally:
            self.env.__exit__(None, None, None)
            self.loop.__exit__(None, None, None)


_CK = {}


def checker_for(schema_key):
    install_lark_cache()
    if schema_key not in _CK:
        _CK[schema_key] = compile_lvs(SCHEMAS[schema_key]).encode()
    return Checker.load(bytes(_CK[schema_key]), DEFAULT_USER_FNS)


def run_chain(case):
    """case: {'schema','depth','types','dev','at'}"""
    viol = []
    h = Hierarchy(case['depth'], case['types'], case['dev'], case['at'])
    if not h.applicable:
        return viol, 'n/a'
    net = Net()
    try:
        if case['dev'] is not None:
            # pre-history inside the execution: another validator instance (default arguments, same anchor) first validates the
            # intact hierarchy with the same names; what it learned must not vouch for the deviating one
            clean = Hierarchy(case['depth'], case['types'])
            net.serve(clean)
            try:
                v1 = lvs_validator(checker_for(case['schema']), net.app, clean.anchor)
            except Exception as e:  # noqa
                return [(f'C14|chain|constructor-raises:{type(e).__name__}|pre-history', f'{e!r}; case {case}')], 'ctor'
            r1 = net.validate(v1, clean.packet)
            if r1.get('v') is not True:
                viol.append((f"C14|chain|rejected-valid|pre-history", f"intact chain verdict {r1.get('v')}; case {case}"))
            net.stores, net.nacks = [], set()
        net.serve(h)
        try:
            abuf = bytearray(h.anchor)
            val = lvs_validator(checker_for(case['schema']), net.app, abuf)
            abuf[:len(abuf)] = b'\xff' * len(abuf)        # the buffer stays the caller's own
        except Exception as e:  # noqa
            return [(f'C14|chain|constructor-raises:{type(e).__name__}', f'{e!r}; case {case}')], 'ctor'
        if case['dev'] == 'locator-type-variant' and case['at'] == 0:
            # this validator has seen (and may remember) the genuine certificates: it validates the intact packet first.  (Only when
            # the packet itself deviates: the certificates of both hierarchies are then the same.)
            r0 = net.validate(val, clean.packet)
            if r0.get('v') is not True:
                viol.append(("C14|chain|rejected-valid|before-type-variant", f"intact chain verdict {r0.get('v')}; case {case}"))
        res = net.validate(val, h.packet)
        want = case['dev'] is None or case['dev'] in VALID_VARIANTS
        if case['schema'] == 'alt' and case['dev'] is None:
            want = True
        got = res.get('v')
        tag = f"dev={case['dev']}|link={'packet' if case['at'] == 0 else 'cert' if case['at'] else None}"
        if not res['done']:
            viol.append((f'C14|chain|never-finishes|{tag}', f'validation did not finish; case {case}'))
        elif got is not True and got is not False:
            viol.append((f'C14|chain|{got}|{tag}', f'validator ended with {got}; case {case}'))
        elif got != want:
            viol.append((f"C14|chain|{'accepted-invalid' if got else 'rejected-valid'}|{tag}",
                         f'verdict {got}, expected {want}; case {case}'))
        # certificate Interests: only certificates of this hierarchy (or the deviation's helpers), each at most once
        reqs = res['requests']
        if len(set(reqs)) != len(reqs):
            viol.append((f'C14|chain|certificate-fetched-twice|{tag}', f'{len(reqs)} Interests for {len(set(reqs))} names; case {case}'))
        if case['dev'] is None:
            need = set(h.cert_names[1:])
            if set(reqs) != need:
                viol.append(('C14|chain|fetch-set', f'fetched {len(set(reqs))} certificates, the chain needs {len(need)}; case {case}'))
        for f in net.loop.task_failures():
            viol.append((f"C14|chain|task-error|{f['exception']}@{f['where']}", f'{f}; case {case}'))
    finally:
        net.close()
    return viol, f"{case['dev']}|{got}"


def chain_cases(tier):
    typesets = {1: [['ec'], ['rsa'], ['ed']], 2: [['ec', 'ec'], ['rsa', 'ec'], ['ec', 'rsa'], ['ed', 'ec'], ['ec', 'ed']],
                3: [['ec', 'ec', 'ec'], ['rsa', 'ec', 'rsa'], ['ed', 'rsa', 'ed']], 4: [['ec', 'ec', 'ec', 'ec'], ['ec', 'rsa', 'ec', 'rsa']]}
    for schema in SCHEMAS:
        for depth in (1, 2, 3, 4):
            for types in typesets[depth]:
                yield {'schema': schema, 'depth': depth, 'types': types, 'dev': None, 'at': None}
                if schema == 'alt' and tier == 'quick' and types != typesets[depth][0]:
                    continue
                for dev in DEVIATIONS:
                    for at in range(0, depth):
                        yield {'schema': schema, 'depth': depth, 'types': types, 'dev': dev, 'at': at}


CTOR_KINDS = ('anchor-outside-roots', 'anchor-intermediate-name', 'bad-self-signature', 'missing-user-function',
              'two-roots-first', 'two-roots-second', 'two-roots-other')


def run_constructor(kind):
    viol = []
    net = Net()
    try:
        h = Hierarchy(2, ['ec', 'ec'])
        ck = checker_for('linear')
        anchor = h.anchor
        fns = DEFAULT_USER_FNS
        if kind == 'anchor-outside-roots':
            # a well-formed self-signed certificate whose name matches no root of trust
            with owned_random('c14-ctor'):
                kn = enc.Name.from_str('/elsewhere/KEY/%01')
                _, anchor = sv2.self_sign(kn, pub_der('ec256_0'), signer_for('ec256_0', kn))
                anchor = bytes(anchor)
        elif kind == 'anchor-intermediate-name':
            with owned_random('c14-ctor2'):
                kn = enc.Name.from_str('/t/l1/KEY/%01')
                _, anchor = sv2.self_sign(kn, pub_der('ec256_0'), signer_for('ec256_0', kn))
                anchor = bytes(anchor)
        elif kind == 'bad-self-signature':
            anchor = anchor[:-3] + bytes([anchor[-3] ^ 0x40]) + anchor[-2:]
        elif kind in ('two-roots-first', 'two-roots-second'):
            # two independent roots of trust: an anchor matching only one of them (whichever) is not enough
            two = SCHEMA_LINEAR + '#anchor2: "u"/#KEY\n#e1: "u"/"data"/x <= #anchor2\n'
            if kind == 'two-roots-second':
                two = '#anchor2: "u"/#KEY\n#e1: "u"/"data"/x <= #anchor2\n' + SCHEMA_LINEAR
            ck = Checker(compile_lvs(two), DEFAULT_USER_FNS)
        elif kind == 'two-roots-other':
            two = SCHEMA_LINEAR + '#anchor2: "u"/#KEY\n#e1: "u"/"data"/x <= #anchor2\n'
            ck = Checker(compile_lvs(two), DEFAULT_USER_FNS)
            with owned_random('c14-ctor3'):
                kn = enc.Name.from_str('/u/KEY/%01')
                _, anchor = sv2.self_sign(kn, pub_der('ec256_0'), signer_for('ec256_0', kn))
                anchor = bytes(anchor)
        elif kind == 'missing-user-function':
            ck = Checker(compile_lvs(SCHEMA_LINEAR.replace('#d1: #site/"data"/"d1"/x <= #anchor', '#d1: #site/"data"/"d1"/x & {x: $custom("a")} <= #anchor')), {})
        try:
            lvs_validator(ck, net.app, anchor)
            viol.append((f'C14|constructor|{kind}|accepted', f'lvs_validator was built although: {kind}'))
        except ValueError:
            pass
        except Exception as e:  # noqa
            viol.append((f'C14|constructor|{kind}|raises:{type(e).__name__}@{tb_where(e)}', f'{e!r}'))
    finally:
        net.close()
    return viol


# -- bindings shared between the packet name and the key name --------------------------------------------------------------------
SCHEMA_BIND = '''
#site: "t"
#KEY: "KEY"/_/_/_
#anchor: #site/#KEY
#user: #site/"user"/u/v/#KEY <= #anchor
#du: #site/"data"/u/v <= #user
#dx: #site/"doc"/x/u <= #user
#dy: #site/"rec"/v/y/u <= #user
'''
# (packet name, valid?) for a user certificate with u=a, v=b
BIND_PACKETS = [('/t/data/a/b', True), ('/t/data/c/b', False), ('/t/data/a/c', False), ('/t/data/b/a', False),
                ('/t/doc/z/a', True), ('/t/doc/a/a', True), ('/t/doc/z/c', False), ('/t/doc/a/z', False), ('/t/doc/z/b', False),
                ('/t/rec/b/q/a', True), ('/t/rec/a/q/b', False), ('/t/rec/b/a/q', False), ('/t/rec/c/q/a', False), ('/t/rec/b/q/c', False)]


def run_binding(idx, order):
    """order: which rule text comes first changes the numbering of the named patterns"""
    viol = []
    pname, want = BIND_PACKETS[idx]
    lines = [ln for ln in SCHEMA_BIND.strip().split('\n')]
    # only the packet rule in question next to the key rule: every named pattern of the schema is then one that the packet name
    # and the key name share or that the packet rule owns, whatever number the compiler gives it
    mine = [ln for ln in lines[4:] if ln.startswith({'data': '#du', 'doc': '#dx', 'rec': '#dy'}[pname.split('/')[2]])]
    if order == 0:
        text = '\n'.join(lines[:4] + mine) + '\n'
    elif order == 1:
        text = '\n'.join(lines[:3] + mine + [lines[3]]) + '\n'        # packet rule before the key rule
    elif order == 2:
        text = SCHEMA_BIND
    elif order == 3:
        # the certificate's name also matches a rule written with literals that has no signer: the other match still counts
        text = '\n'.join(lines[:3] + ['#lit: #site/"user"/"a"/"b"/#KEY'] + lines[3:]) + '\n'
    elif order in (5, 6):
        # sibling rules that share the named patterns and then go on with a literal where the packet rule has a pattern; their signer
        # is a key nobody holds, so they change no verdict (written after / before the packet rules)
        sib = ('#other: #site/"other"/#KEY <= #anchor\n#dl1: #site/"data"/u/"b" <= #other\n#dl2: #site/"doc"/x/"a" <= #other\n'
               '#dl3: #site/"rec"/v/y/"a" <= #other\n#dl4: #site/"data"/"c"/v <= #other\n')
        text = SCHEMA_BIND + sib if order == 5 else '\n'.join(lines[:3]) + '\n' + sib + '\n'.join(lines[3:]) + '\n'
    else:
        # the packet rule defined a second time with the same name pattern and the anchor as signer: both definitions count
        text = SCHEMA_BIND + ''.join(ln.split('<=')[0] + '<= #anchor\n' for ln in mine)
    by_anchor = order == 4
    if by_anchor:
        want = True if pname.split('/')[2] in ('data', 'doc', 'rec') and len(pname.split('/')) == {'data': 5, 'doc': 5, 'rec': 6}[pname.split('/')[2]] else want
    start = dt.datetime(2024, 1, 1)
    with owned_env(clock=Clock(), seed=15):
        with owned_random(('c14-bind', idx)):
            akn = enc.Name.from_str('/t/KEY/%01')
            aname, anchor = sv2.self_sign(akn, pub_der('ec256_0'), signer_for('ec256_0', akn))
            ukn = enc.Name.from_str('/t/user/a/b/KEY/%02')
            uname, ucert = sv2.derive_cert(ukn, 'anchor', pub_der('ec256_1'), signer_for('ec256_0', aname), start, 3600 * 24)
            pkt = bytes(enc.make_data(pname, enc.MetaInfo(freshness_period=1000), b'payload',
                                      signer_for('ec256_0', aname) if by_anchor else signer_for('ec256_1', uname)))
    net = Net()
    try:
        net.stores.append({bytes(enc.Name.to_bytes(uname)): bytes(ucert)})
        install_lark_cache()
        try:
            val = lvs_validator(Checker(compile_lvs(text), DEFAULT_USER_FNS), net.app, bytes(anchor))
        except Exception as e:  # noqa
            return [(f'C14|binding|constructor-raises:{type(e).__name__}', f'{e!r}')], 'ctor'
        res = net.validate(val, pkt)
        got = res.get('v')
        if not res['done']:
            viol.append(('C14|binding|never-finishes', f'{pname}'))
        elif got is not True and got is not False:
            viol.append((f'C14|binding|{got}', f'validator ended with {got} for {pname}'))
        elif got != want:
            viol.append((f"C14|binding|{'accepted-invalid' if got else 'rejected-valid'}",
                         f'{pname} signed by the genuine certificate {enc.Name.to_str(uname)} (rule order {order}): verdict {got}, the schema says {want}'))
        for f in net.loop.task_failures():
            viol.append((f"C14|binding|task-error|{f['exception']}@{f['where']}", f'{f}'))
    finally:
        net.close()
    return viol, f'{got}'


def run_storage(depth):
    """a validator built with an explicit key storage that keeps nothing: every validation fetches the chain again, so a chain
    that can no longer be retrieved no longer vouches (and the storage handed in is the one consulted)"""
    from ndn.security.validator.cascade_validator import PublicKeyStorage
    viol = []
    calls = []

    class Forgetful(PublicKeyStorage):
        def load(self, name):
            calls.append('load')
            return None

        def save(self, name, key_bits):
            calls.append('save')
    h = Hierarchy(depth, ['ec'] * depth, tag='st')
    net = Net()
    try:
        net.serve(h)
        val = lvs_validator(checker_for('linear'), net.app, h.anchor, Forgetful())
        r1 = net.validate(val, h.packet)
        if r1.get('v') is not True:
            viol.append(('C14|storage|rejected-valid', f'intact chain of depth {depth} with a storage that keeps nothing: verdict {r1.get("v")}'))
        if depth >= 2 and 'load' not in calls:
            viol.append(('C14|storage|given-storage-not-consulted', f'depth {depth}: the key storage handed to lvs_validator was never asked'))
        n1 = len(r1['requests'])
        # the same again: everything is fetched again
        r2 = net.validate(val, h.packet)
        if r2.get('v') is not True or len(r2['requests']) != n1:
            viol.append(('C14|storage|second-validation', f'depth {depth}: second validation verdict {r2.get("v")} with {len(r2["requests"])} fetches (first: {n1})'))
        # now the certificates are gone from the network
        net.stores, net.nacks = [], set(h.cert_names[1:])
        r3 = net.validate(val, h.packet)
        if depth >= 2 and r3.get('v') is not False:
            viol.append(('C14|storage|accepted-unretrievable-chain', f'depth {depth}: with nothing cached and the certificates withdrawn the verdict is {r3.get("v")}'))
        for f in net.loop.task_failures():
            viol.append((f"C14|storage|task-error|{f['exception']}@{f['where']}", f'{f}'))
    finally:
        net.close()
    return viol


# -- isolation ---------------------------------------------------------------------------------------------------
def isolation_world():
    """two hierarchies with the same names but different keys (A, B) and one more unrelated packet"""
    hA = Hierarchy(2, ['ec', 'ec'], keyset=0, tag='pA')
    hB = Hierarchy(2, ['ec', 'ec'], keyset=2, tag='pB', kid_base=0x80)      # other keys, other key ids: both chains are retrievable
    hN = Hierarchy(2, ['ec', 'ec'], 'bad-signature', 0, keyset=0, tag='pN')
    # pX: genuinely signed by A's level-1 key, but the KeyLocator names another certificate of that key that nobody can retrieve
    kn = enc.Name.from_str(LEVEL_PREFIX[1] + '/KEY/%02')
    rogue = kn + [enc.Component.from_str('rogue'), enc.Component.from_version(1)]
    hA.pX = bytes(enc.make_data('/t/data/d2/pX', enc.MetaInfo(freshness_period=1000), b'payload-pX',
                                signer_for(hA.keyname(1, ['ec', 'ec'], 0), rogue)))
    return hA, hB, hN


def run_isolation(seq):
    """seq: list of (instance 'A'|'B', packet 'pA'|'pB'|'pN')"""
    viol = []
    hA, hB, hN = isolation_world()
    pk = {'pA': hA.packet, 'pB': hB.packet, 'pN': hN.packet, 'pX': hA.pX}
    fresh = {('A', 'pA'): True, ('A', 'pB'): False, ('A', 'pN'): False, ('A', 'pX'): False,
             ('B', 'pA'): False, ('B', 'pB'): True, ('B', 'pN'): False, ('B', 'pX'): False}
    for i_, p_ in fresh:
        fresh_verdict(i_, p_)        # computed on separate fresh instances, before this execution's loop is entered
    net = Net()
    try:
        net.serve(hB)
        net.serve(hA)
        # both anchors are handed over through one reusable buffer, as an application reading them from files would
        buf = bytearray(4096)
        buf[:len(hA.anchor)] = hA.anchor
        vA = lvs_validator(checker_for('linear'), net.app, memoryview(buf)[:len(hA.anchor)])
        buf[:len(hB.anchor)] = hB.anchor
        vB = lvs_validator(checker_for('linear'), net.app, memoryview(buf)[:len(hB.anchor)])
        buf[:4096] = b'\x00' * 4096
        # fresh-state verdicts are computed on separate fresh instances below
        for k, (inst, p) in enumerate(seq):
            res = net.validate(vA if inst == 'A' else vB, pk[p])
            want = fresh_verdict(inst, p)
            if want != fresh[(inst, p)]:
                viol.append((f'C14|isolation|fresh-verdict|{inst}:{p}|got={want}', f'fresh instance {inst} gives {want} for {p}, expected {fresh[(inst, p)]}'))
                break
            if res.get('v') != want:
                viol.append((f"C14|isolation|verdict-depends-on-history|{inst}:{p}|got={res.get('v')}|fresh={want}",
                             f'validation {k} ({inst} validates {p}) in history {seq} gives {res.get("v")}, on fresh instances {want}'))
                break
        for f in net.loop.task_failures():
            viol.append((f"C14|isolation|task-error|{f['exception']}@{f['where']}", f'{f}'))
    finally:
        net.close()
    return viol


_FRESH = {}


def fresh_verdict(inst, p):
    if (inst, p) not in _FRESH:
        hA, hB, hN = isolation_world()
        pk = {'pA': hA.packet, 'pB': hB.packet, 'pN': hN.packet, 'pX': hA.pX}
        net = Net()
        try:
            net.serve(hB)
            net.serve(hA)
            from ndn.security.validator.cascade_validator import MemoryKeyStorage
            v = lvs_validator(checker_for('linear'), net.app, (hA if inst == 'A' else hB).anchor, MemoryKeyStorage())
            _FRESH[(inst, p)] = net.validate(v, pk[p]).get('v')
        finally:
            net.close()
    return _FRESH[(inst, p)]


def iso_sequences(tier):
    items = [(i, p) for i in 'AB' for p in ('pA', 'pB', 'pN', 'pX')]
    for n in range(1, 4 if tier == 'quick' else 5):
        yield from itertools.product(items, repeat=n)


# -- certificate loops that the schema does not exclude --------------------------------------------------
SCHEMA_LOOPY = r'''
#KEY: "KEY"/_/_/_
#root: "lab"/#KEY
#p1: "lab"/"a"/_/#KEY <= #q1
#q1: "lab"/_/"b2"/#KEY <= #root
#p2: "lab"/"b"/_/#KEY <= #q2
#q2: "lab"/_/"a2"/#KEY <= #root
#p3: "lab"/"c"/_/#KEY <= #q1 | #q2
#data: "lab"/"data"/_ <= #p1
#data2: "lab"/"data2"/_ <= #p2
'''
LOOP_KINDS = ('intact', 'valid-after-refused-cycle', 'intact-debug-logging', 'two-cycle-debug-logging', 'intact-two-at-once', 'intact-second-while-waiting', 'two-cycle-one-full-name', 'two-cycle', 'three-cycle', 'names-itself', 'cycle-behind-intact-prefix')


def loopy_world(kind):
    """names match several schema nodes (acyclic on the node level): /lab/a/a2/KEY/.. is a #p1 and a #q2, /lab/b/b2/KEY/.. a #p2 and a #q1,
    /lab/a/b2/KEY/.. a #p1 and a #q1 - so certificates may legally name each other in a circle, which never reaches the anchor"""
    start = dt.datetime(2024, 1, 1)
    keyn = {'A': ('/lab/a/a2/KEY/%01', 'ec256_1'), 'B': ('/lab/b/b2/KEY/%01', 'ec256_2'), 'C': ('/lab/a/b2/KEY/%01', 'ec256_3'),
            'D': ('/lab/c/a2/KEY/%01', 'ec256_4')}
    # who signs whose certificate ('R' = the anchor)
    plan_ = {'intact': {'A': 'C', 'C': 'R'}, 'intact-two-at-once': {'A': 'C', 'C': 'R'}, 'intact-second-while-waiting': {'A': 'C', 'C': 'R'},
             'two-cycle': {'A': 'B', 'B': 'A'}, 'two-cycle-one-full-name': {'A': 'B', 'B': 'A'}, 'valid-B-under-A': {'A': 'R', 'B': 'A'},
             'valid-after-refused-cycle': {'A': 'B', 'B': 'A'}, 'three-cycle': {'A': 'B', 'B': 'D', 'D': 'A'}, 'names-itself': {'A': 'C', 'C': 'C'},
             'cycle-behind-intact-prefix': {'A': 'C', 'C': 'B', 'B': 'A'}}[kind]

    def build(locators):
        out = {}
        with owned_env(clock=Clock(), seed=14):
            with owned_random(('c14-loopy', kind)):
                akn = enc.Name.from_str('/lab/KEY/%01')
                aname, anchor = sv2.self_sign(akn, pub_der('ec256_0'), signer_for('ec256_0', akn))
                out['R'] = (aname, bytes(anchor))
                for who in sorted(plan_, reverse=kind.endswith('full-name')):
                    by = plan_[who]
                    bykey = 'ec256_0' if by == 'R' else keyn[by][1]
                    loc = aname if by == 'R' else locators.get(by, '/x')
                    if kind.endswith('full-name') and who == 'A' and by in out:
                        # A names B by B's full name (B exists already and names A by its plain name)
                        loc = list(out[by][0]) + [enc.Component.from_bytes(hashlib.sha256(out[by][1]).digest(), enc.Component.TYPE_IMPLICIT_SHA256)]
                        out['B-full'] = (loc, out[by][1])
                    nm, cert = sv2.derive_cert(enc.Name.from_str(keyn[who][0]), 'iss', pub_der(keyn[who][1]), signer_for(bykey, loc), start, 86400)
                    out[who] = (nm, bytes(cert))
                pk = [bytes(enc.make_data(f'/lab/data/{i}', enc.MetaInfo(freshness_period=1000), b'x', signer_for(keyn['A'][1], out['A'][0])))
                      for i in (1, 2)]
                if 'B' in out:
                    pk.append(bytes(enc.make_data('/lab/data2/3', enc.MetaInfo(freshness_period=1000), b'x', signer_for(keyn['B'][1], out['B'][0]))))
        return out, pk
    first, _ = build({})
    certs, pk = build({k: v[0] for k, v in first.items()})
    assert all(certs[k][0] == first[k][0] for k in first if k != 'B-full')
    return certs, pk


def run_loops(kind):
    if kind.endswith('-debug-logging'):
        # the verdict (and whether the validator can be built at all) does not depend on the logging configuration
        from mc.ndnenv import debug_logging
        with debug_logging():
            return [(sg.replace('|loops|', '|loops-debug-logging|'), w + ' (DEBUG logging enabled)') for sg, w in run_loops(kind[:-len('-debug-logging')])]
    viol = []
    install_lark_cache()
    certs, pk = loopy_world(kind)

    class H:
        store = {bytes(enc.Name.to_bytes(nm)): w for k, (nm, w) in certs.items() if k != 'R'}
        nack = set()
    net = Net()
    try:
        net.serve(H)
        val = lvs_validator(Checker(compile_lvs(SCHEMA_LOOPY), DEFAULT_USER_FNS), net.app, certs['R'][1])
        want = kind.startswith('intact')
        if kind == 'valid-after-refused-cycle':
            # first the certificates retrievable under the names of A and B name each other: refused. Later the proper certificates
            # are retrievable under the same names (A certified by the anchor, B by A): the same validator must accept packet - B - A - anchor
            res = net.validate(val, pk[0])
            results = [(res.get('v') is False or res.get('v'), res['done'])]
            if res.get('v') is not False:
                viol.append((f'C14|loops|{kind}|first-verdict={res.get("v")}', 'the circular chain was not refused'))
            good, pk2 = loopy_world('valid-B-under-A')
            if [good[k][0] for k in 'AB'] != [certs[k][0] for k in 'AB']:
                raise AssertionError('harness: certificate names of the two worlds differ')
            H.store.clear()
            H.store.update({bytes(enc.Name.to_bytes(nm)): w for k, (nm, w) in good.items() if k != 'R'})
            net.requests.clear()
            res = net.validate(val, pk2[2])
            results = [(res.get('v'), res['done'])]
            reqs = res['requests']
            want = True
        elif kind == 'intact-second-while-waiting':
            # the certificate of the issuer is slow; a second packet of the same signer is handed to the validator meanwhile
            out = {}
            net.hold = {bytes(enc.Name.to_bytes(certs['C'][0]))}
            net.held = []

            async def one(i):
                try:
                    name, _, _, sig = enc.parse_data(pk[i])
                    out[i] = await val(name, sig)
                except BaseException as e:  # noqa
                    out[i] = f'raises:{type(e).__name__}@{tb_where(e)}'
            ts_ = [net.loop.create_task(one(0))]
            net.loop.drain()
            ts_.append(net.loop.create_task(one(1)))
            net.loop.drain()
            net.hold = set()
            for w_ in net.held:
                net.face.deliver(w_)
            net.loop.settle()
            results = [(out.get(i), ts_[i].done()) for i in (0, 1)]
            reqs = list(net.requests)
        elif kind == 'intact-two-at-once':
            out = {}

            async def one(i):
                try:
                    name, _, _, sig = enc.parse_data(pk[i])
                    out[i] = await val(name, sig)
                except BaseException as e:  # noqa
                    out[i] = f'raises:{type(e).__name__}@{tb_where(e)}'
            ts_ = [net.loop.create_task(one(0)), net.loop.create_task(one(1))]
            net.loop.settle()
            results = [(out.get(i), ts_[i].done()) for i in (0, 1)]
            reqs = list(net.requests)
        else:
            res = net.validate(val, pk[0])
            results = [(res.get('v'), res['done'])]
            reqs = res['requests']
        for got, done in results:
            if not done:
                viol.append((f'C14|loops|{kind}|never-finishes', 'validation did not finish'))
            elif got is not True and got is not False:
                viol.append((f'C14|loops|{kind}|{got}', f'validator ended with {got} after {len(reqs)} certificate Interests'))
            elif got != want:
                viol.append((f"C14|loops|{kind}|{'accepted-invalid' if got else 'rejected-valid'}", f'verdict {got}, expected {want}'))
        if len(reqs) > 2 * len(certs):
            viol.append((f'C14|loops|{kind}|fetches-round-and-round', f'{len(reqs)} certificate Interests for {len(certs) - 1} certificates'))
        for f in net.loop.task_failures():
            viol.append((f"C14|loops|{kind}|task-error|{f['exception']}@{f['where']}", f'{f}'))
    except HorizonExceeded:
        viol.append((f'C14|loops|{kind}|never-finishes', 'the validation keeps the loop busy beyond the horizon'))
    except Exception as e:  # noqa
        viol.append((f'C14|loops|{kind}|raises:{type(e).__name__}@{tb_where(e)}', f'{e!r}'))
    finally:
        net.close()
    return viol


def plan(tier, seed):
    cases = list(chain_cases(tier))
    units = [{'kind': 'chain', 'lo': lo, 'hi': min(len(cases), lo + 8), 'tier': tier} for lo in range(0, len(cases), 8)]
    units.append({'kind': 'constructor'})
    units.append({'kind': 'binding'})
    units.append({'kind': 'storage'})
    units += [{'kind': 'loops', 'what': k} for k in LOOP_KINDS]
    seqs = list(iso_sequences(tier))
    units += [{'kind': 'isolation', 'lo': lo, 'hi': min(len(seqs), lo + 12), 'tier': tier} for lo in range(0, len(seqs), 12)]
    return {
        'units': units,
        'rule': 'chain: execution = (schema, depth, key types, deviation, link); isolation: execution = order of <=3 (quick) / <=4 (thorough) '
                'validations over 2 instances x 3 packets. Non-trivial = a deviation at a certificate link (not the packet itself), or a history of '
                'at least two validations.',
        'bounds': {'chain_cases': len(cases), 'depths': [1, 2, 3, 4], 'deviations': DEVIATIONS, 'isolation_histories': len(seqs)},
        'assumptions': ['certificate validity periods are not part of the statement and are not varied',
                        'timeout on a missing certificate uses the library default lifetime (virtual time)',
                        'a certificate name resolves to one certificate on the network'],
    }


def unit(arg):
    acc = Acc()
    if arg['kind'] == 'chain':
        for case in list(chain_cases(arg['tier']))[arg['lo']:arg['hi']]:
            viol, key = run_chain(case)
            if key == 'n/a':
                continue
            acc.evaluations += 1
            acc.transitions += case['depth'] + 1
            acc.state(repr(sorted(case.items(), key=repr)))
            if case['dev'] is not None and case['at']:
                acc.nontrivial += 1
            acc.outcome(f'chain|{key}')
            acc.observe([case, key, [v[0] for v in viol]])
            for sig, what in viol:
                acc.violation(sig, what, {'kind': 'chain', 'case': case})
            acc.sample({'chain_case': case, 'verdict': key})
    elif arg['kind'] == 'loops':
        viol = run_loops(arg['what'])
        acc.evaluations += 1
        acc.transitions += 4
        acc.nontrivial += 1
        acc.state(arg['what'])
        acc.outcome(f"loops|{arg['what']}|{'ok' if not viol else 'viol'}")
        acc.observe([arg['what'], [v[0] for v in viol]])
        for sig, what in viol:
            acc.violation(sig, what, {'kind': 'loops', 'what': arg['what']})
        acc.sample({'loop_case': arg['what'], 'schema': SCHEMA_LOOPY})
    elif arg['kind'] == 'storage':
        for depth in (1, 2, 3, 4):
            viol = run_storage(depth)
            acc.evaluations += 1
            acc.transitions += 3
            acc.nontrivial += 1
            acc.state(('storage', depth))
            acc.outcome(f"storage|{'ok' if not viol else 'viol'}")
            acc.observe(['storage', depth, [v[0] for v in viol]])
            for sig, what in viol:
                acc.violation(sig, what, {'kind': 'storage', 'depth': depth})
        acc.sample({'storage': 'explicit storage that keeps nothing, depths 1..4'})
    elif arg['kind'] == 'binding':
        for order in (0, 1, 2, 3, 4, 5, 6):
            for idx in range(len(BIND_PACKETS)):
                viol, key = run_binding(idx, order)
                acc.evaluations += 1
                acc.transitions += 2
                acc.nontrivial += 1
                acc.state(('binding', idx, order))
                acc.outcome(f'binding|valid={BIND_PACKETS[idx][1]}|{key}')
                acc.observe([idx, order, key, [v[0] for v in viol]])
                for sig, what in viol:
                    acc.violation(sig, what, {'kind': 'binding', 'idx': idx, 'order': order})
        acc.sample({'binding_packets': [p for p, _ in BIND_PACKETS][:5], 'certificate': '/t/user/a/b/KEY/..'})
    elif arg['kind'] == 'constructor':
        for kind in CTOR_KINDS:
            viol = run_constructor(kind)
            acc.evaluations += 1
            acc.transitions += 1
            acc.nontrivial += 1
            acc.state(kind)
            acc.outcome(f"constructor|{kind}|{'refused' if not viol else 'viol'}")
            acc.observe([kind, [v[0] for v in viol]])
            for sig, what in viol:
                acc.violation(sig, what, {'kind': 'constructor', 'what': kind})
        acc.sample({'constructor_cases': ['anchor-outside-roots', 'anchor-intermediate-name', 'bad-self-signature', 'missing-user-function']})
    else:
        for seq in list(iso_sequences(arg['tier']))[arg['lo']:arg['hi']]:
            viol = run_isolation(list(seq))
            acc.evaluations += 1
            acc.transitions += len(seq)
            acc.state(repr(seq))
            if len(seq) > 1:
                acc.nontrivial += 1
            acc.outcome(f"isolation|len={len(seq)}|{'ok' if not viol else 'viol'}")
            acc.observe([list(seq), [v[0] for v in viol]])
            for sig, what in viol:
                acc.violation(sig, what, {'kind': 'isolation', 'seq': [list(x) for x in seq]})
        acc.sample({'isolation_history': [list(x) for x in seq]})
    return acc


def replay(case):
    if case['kind'] == 'chain':
        v, _ = run_chain(case['case'])
    elif case['kind'] == 'storage':
        v = run_storage(case['depth'])
    elif case['kind'] == 'loops':
        v = run_loops(case['what'])
    elif case['kind'] == 'binding':
        v, _ = run_binding(case['idx'], case['order'])
    elif case['kind'] == 'constructor':
        v = run_constructor(case['what'])
    else:
        v = run_isolation([tuple(x) for x in case['seq']])
    return [{'sig': s, 'what': w} for s, w in v]
