"""
C15 - keychain contents, defaults and signers stay consistent over any history.

E-hist + fault/crash enumeration on the real KeychainSqlite3 + TpmFile in a scratch directory (tmpfs):
  bfs   : breadth-first search over all operation histories up to a depth over 2 identities x <=2 keys x <=2 certificates
          (touch / new identity, new key EC|RSA, import certificate, set default identity/key/certificate, delete
          certificate (both entry points) / key (both) / identity, get_signer with every argument form, close+reopen),
          dedup on the complete persistent state (table dump with row ids and default flags, key-directory listing, signer cache).
          After every step: view consistency and owner scoping, default uniqueness/existence, nothing left beneath deleted
          owners, every obtainable signer signs with the selected key and names the selected certificate.
  fault : for every history up to a (smaller) depth and every storage step of its last operation (each sqlite execute/commit,
          each private-key-store call): (a) the step raises, the object is kept and the operation repeated; (b) the process
          "crashes" there (connection dropped without commit, store reopened) and the operation is repeated.  Afterwards the
          invariants hold on the actual store and the operation's postcondition holds; only documented refusals may be raised.
"""
from __future__ import annotations

import datetime as dt
import hashlib
import os
import shutil
import sqlite3
import tempfile

from Cryptodome.Hash import SHA256
from Cryptodome.PublicKey import ECC, RSA
from Cryptodome.Signature import DSS, pkcs1_15

import ndn.encoding as enc
from mc.ndnenv import owned_env
from ndn.security import KeychainSqlite3, TpmFile
from ndn.app_support import security_v2 as sv2

from mc.core import Acc
from mc.bfs import explore_histories
from mc.seams import owned_random, fixed_now, key_der
from mc.ref import ndn_strict as ns
from mc.vloop import tb_where

PROPERTY = 'C15'
IDN = {'a': '/ida', 'b': '/ida/KEY/fixed-id'}      # (the second identity is named like a key of the first: names with a KEY component inside)
SHM = '/dev/shm' if os.path.isdir('/dev/shm') else None


class Injected(Exception):
    pass


class KeyPool:
    """stands in for RSA / ECC inside tpm_file: generate() hands out fixture keys in order"""

    def __init__(self, real, names):
        self._real = real
        self._names = list(names)
        self._i = 0

    def generate(self, *a, **k):
        nm = self._names[self._i % len(self._names)]
        self._i += 1
        return self._real.import_key(key_der(nm))

    def __getattr__(self, item):
        return getattr(self._real, item)


class Clock:
    def __init__(self):
        self.t = 1_700_000_000.0

    def time(self):
        self.t += 0.001
        return self.t


class Steps:
    """counts storage steps and injects a fault at step `at`"""

    def __init__(self):
        self.n = 0
        self.at = None
        self.mode = None
        self.fired = None
        self.log = []

    def hit(self, what, exc=None):
        self.n += 1
        self.log.append(what)
        if self.at is not None and self.n == self.at:
            self.at = None
            self.fired = what
            raise exc or (sqlite3.OperationalError('injected: disk I/O error') if what.startswith('sql') else OSError('injected: I/O error'))


class ConnProxy:
    def __init__(self, conn, steps):
        self._c = conn
        self._s = steps

    def execute(self, sql, *a):
        self._s.hit('sql:' + sql.split()[0])
        return self._c.execute(sql, *a)

    def commit(self):
        self._s.hit('sql:commit')
        return self._c.commit()

    def __getattr__(self, item):
        return getattr(self._c, item)


class OsProxy:
    """stands in for the `os` module inside tpm_file: removing a file is a storage step that can fail"""

    def __init__(self, steps):
        self._s = steps

    def remove(self, path):
        self._s.hit('os:remove', PermissionError(13, 'injected: permission denied'))
        return os.remove(path)

    def unlink(self, path):
        self._s.hit('os:remove', PermissionError(13, 'injected: permission denied'))
        return os.unlink(path)

    def __getattr__(self, item):
        return getattr(os, item)


class FaultTpm(TpmFile):
    def __init__(self, path, steps):
        super().__init__(path)
        self._s = steps

    def save_key(self, key_name, key_der_):
        self._s.hit('tpm:save_key')
        return super().save_key(key_name, key_der_)

    def delete_key(self, key_name):
        self._s.hit('tpm:delete_key')
        return super().delete_key(key_name)

    def get_signer(self, key_name, key_locator_name=None):
        self._s.hit('tpm:get_signer')
        return super().get_signer(key_name, key_locator_name)


def key_file_name(key_name: bytes) -> str:
    """on-disk name of a private key in the file key store (the ndn-cxx compatible layout: SHA-256 of the key name)"""
    return hashlib.sha256(key_name).hexdigest() + '.privkey'


def nb(name) -> bytes:
    return bytes(enc.Name.to_bytes(name))


class World:
    def __init__(self):
        self.dir = tempfile.mkdtemp(prefix='c15-', dir=SHM)
        self.pib = os.path.join(self.dir, 'pib.db')
        self.tpmdir = os.path.join(self.dir, 'ndnsec-key-file')
        self.steps = Steps()
        # key generation and file removal are owned at the level of the standard / Cryptodome functions the key store ends up
        # calling, whatever way it imports them
        self.env = owned_env(clock=Clock(), seed=15)
        self.env.__enter__()
        rsa_pool = KeyPool(RSA, ['rsa2048_0', 'rsa2048_1', 'rsa2048_2', 'rsa2048_3'])
        ecc_pool = KeyPool(ECC, ['ec256_0', 'ec256_1', 'ec256_2', 'ec256_3', 'ec256_4', 'ec256_5'])
        self.old = (RSA.generate, ECC.generate, os.remove, os.unlink)
        RSA.generate, ECC.generate = rsa_pool.generate, ecc_pool.generate
        real_remove, real_unlink, steps, base = os.remove, os.unlink, self.steps, self.dir

        def remove(path, *a, **k):
            if str(os.fspath(path)).startswith(base):
                steps.hit('os:remove', PermissionError(13, 'injected: permission denied'))
            return real_remove(path, *a, **k)

        def unlink(path, *a, **k):
            if str(os.fspath(path)).startswith(base):
                steps.hit('os:remove', PermissionError(13, 'injected: permission denied'))
            return real_unlink(path, *a, **k)
        os.remove, os.unlink = remove, unlink
        self.rnd = owned_random('c15')
        self.rnd.__enter__()
        self.now = fixed_now()
        self.now.__enter__()
        KeychainSqlite3.initialize(self.pib, 'tpm-file', self.tpmdir)
        self.kc = None
        self.open()
        # reference model: identities -> keys -> certs, by name bytes, in creation order
        self.ref = {}            # id name bytes -> {'keys': {key bytes: {'certs': [cert bytes...], 'default': cert|None, 'bits': bytes}}, 'default': key|None, 'order': [...]}
        self.default_id = None
        self.deleted_keys = set()
        self.deleted_certs = {}
        self.ncert = 0

    def open(self):
        self.kc = KeychainSqlite3(self.pib, FaultTpm(self.tpmdir, self.steps))
        self.kc.conn = ConnProxy(self.kc.conn, self.steps)

    def crash(self):
        """drop the object without committing: uncommitted work is lost, files stay"""
        try:
            self.kc.conn._c.rollback()
            self.kc.conn._c.close()
        except Exception:  # noqa
            pass
        self.kc.conn = None
        self.open()

    def close(self):
        try:
            if self.kc is not None and self.kc.conn is not None:
                self.kc.conn._c.close()
                self.kc.conn = None
        finally:
            self.now.__exit__(None, None, None)
            self.rnd.__exit__(None, None, None)
            RSA.generate, ECC.generate, os.remove, os.unlink = self.old
            self.env.__exit__(None, None, None)
            shutil.rmtree(self.dir, ignore_errors=True)

    # -- independent view of the persistent state ----------------------------------------------------------
    def dump(self):
        c = sqlite3.connect(self.pib)
        try:
            ids = c.execute('SELECT id, identity, is_default FROM identities ORDER BY id').fetchall()
            keys = c.execute('SELECT id, identity_id, key_name, key_bits, is_default FROM keys ORDER BY id').fetchall()
            certs = c.execute('SELECT id, key_id, certificate_name, certificate_data, is_default FROM certificates ORDER BY id').fetchall()
        finally:
            c.close()
        files = sorted(os.listdir(self.tpmdir))
        return ids, keys, certs, files

    def canon(self):
        ids, keys, certs, files = self.dump()
        idn = {nb(v): k for k, v in IDN.items()}
        kord, cord = {}, {}
        cid = tuple((r[0], idn.get(bytes(r[1]), '?'), r[2]) for r in ids)
        ck = []
        for r in keys:
            owner = next((idn.get(bytes(i[1]), '?') for i in ids if i[0] == r[1]), 'orphan')
            kind = 'rsa' if len(r[3]) > 200 else 'ec'
            ck.append((r[0], r[1], owner, kind, r[4]))
        cc_ = tuple((r[0], r[1], r[4], self.cert_tag(bytes(r[2]))) for r in certs)
        keyfile = {key_file_name(bytes(r[2])) for r in keys}
        nfiles = (len([f for f in files if f in keyfile]), len([f for f in files if f not in keyfile]))
        cache = list(getattr(self.kc, '_signer_cache', {}))
        return (cid, tuple(ck), cc_, nfiles, len(cache))

    def cert_tag(self, cname: bytes):
        try:
            comps = enc.Name.from_bytes(cname)
            return bytes(enc.Component.get_value(comps[-2])).decode(errors='replace')
        except Exception:  # noqa
            return '?'

    def all_cert_names(self):
        return {c for i in self.ref.values() for k in i['keys'].values() for c in k['certs']}

    def summary(self):
        return {'identities': {nm: {'keys': len(self.ref[nb(u)]['keys']) if nb(u) in self.ref else None} for nm, u in IDN.items()},
                'default_identity': None if self.default_id is None else bytes(self.default_id).hex()[:20]}

    # -- reference helpers -----------------------------------------------------------------------------------
    def key_of(self, idk, ordinal):
        i = self.ref.get(nb(IDN[idk]))
        if i is None or ordinal >= len(i['order']):
            return None
        return i['order'][ordinal]

    def cert_of(self, idk, kord, cord):
        k = self.key_of(idk, kord)
        if k is None:
            return None, None
        certs = self.ref[nb(IDN[idk])]['keys'][k]['certs']
        if cord >= len(certs):
            return k, None
        return k, certs[cord]

    def resync(self):
        """rebuild the reference from the actual store (used after an injected fault)"""
        ids, keys, certs, files = self.dump()
        self.ref = {}
        self.default_id = None
        for rid, name, dflt in ids:
            self.ref[bytes(name)] = {'keys': {}, 'default': None, 'order': [], 'rowid': rid}
            if dflt:
                self.default_id = bytes(name)
        by_id = {r[0]: bytes(r[1]) for r in ids}
        by_key = {}
        for rid, iid, kname, bits, dflt in keys:
            owner = by_id.get(iid)
            if owner is None:
                continue
            self.ref[owner]['keys'][bytes(kname)] = {'certs': [], 'default': None, 'bits': bytes(bits)}
            self.ref[owner]['order'].append(bytes(kname))
            if dflt:
                self.ref[owner]['default'] = bytes(kname)
            by_key[rid] = (owner, bytes(kname))
        for rid, kid, cname, cdata, dflt in certs:
            if kid in by_key:
                owner, kname = by_key[kid]
                self.ref[owner]['keys'][kname]['certs'].append(bytes(cname))
                if dflt:
                    self.ref[owner]['keys'][kname]['default'] = bytes(cname)

    # -- invariants --------------------------------------------------------------------------------------------
    def check_state(self, viol, strict_ref=True):
        def bad(clause, what):
            viol.append((f'C15|{clause}', what))
        ids, keys, certs, files = self.dump()
        # (0) the store agrees with the reference model (only when the reference was maintained by the model rules)
        if strict_ref:
            got_ids = {bytes(r[1]) for r in ids}
            if got_ids != set(self.ref):
                bad('model|identities', f'store has identities {sorted(x.hex()[:16] for x in got_ids)}, model {sorted(x.hex()[:16] for x in self.ref)}')
                return
        # (2) defaults: at most one per scope, one whenever the model says the scope has one
        if sum(1 for r in ids if r[2]) > 1:
            bad('defaults|two-default-identities', 'more than one default identity')
        for r in ids:
            ks = [k for k in keys if k[1] == r[0]]
            if sum(1 for k in ks if k[4]) > 1:
                bad('defaults|two-default-keys', 'more than one default key in an identity')
        for k in keys:
            cs = [c for c in certs if c[1] == k[0]]
            if sum(1 for c in cs if c[4]) > 1:
                bad('defaults|two-default-certs', 'more than one default certificate in a key')
        if strict_ref:
            d = next((bytes(r[1]) for r in ids if r[2]), None)
            if d != self.default_id:
                bad('defaults|identity', f'default identity is {None if d is None else d.hex()[:16]}, model says {None if self.default_id is None else self.default_id.hex()[:16]}')
        # (3) nothing beneath deleted owners
        idrows = {r[0] for r in ids}
        keyrows = {k[0] for k in keys}
        if any(k[1] not in idrows for k in keys):
            bad('orphans|key-without-identity', 'a key row refers to a deleted identity')
        if any(c[1] not in keyrows for c in certs):
            bad('orphans|cert-without-key', 'a certificate row refers to a deleted key')
        for kname in self.deleted_keys:
            if key_file_name(kname) in files and not any(bytes(k[2]) == kname for k in keys):
                bad('orphans|private-key-file', 'the private key of a deleted key is still in the key directory')
        # (1) views behave as consistent mappings scoped to their owner
        kc = self.kc
        try:
            self.check_view('keychain', kc, {bytes(r[1]) for r in ids}, set(), viol)
            all_keys = {bytes(k[2]) for k in keys}
            all_certs = {bytes(c[2]) for c in certs}
            for r in ids:
                ident = kc[bytes(r[1])]
                mine = {bytes(k[2]) for k in keys if k[1] == r[0]}
                self.check_view('identity', ident, mine, all_keys - mine, viol)
                dk = next((bytes(k[2]) for k in keys if k[1] == r[0] and k[4]), None)
                self.check_default('key', ident.has_default_key, ident.default_key, dk, viol)
                if strict_ref and dk != self.ref[bytes(r[1])]['default']:
                    bad('defaults|key', f'default key differs from the model')
                for k in [k for k in keys if k[1] == r[0]]:
                    key = ident[bytes(k[2])]
                    cmine = {bytes(c[2]) for c in certs if c[1] == k[0]}
                    self.check_view('key', key, cmine, all_certs - cmine, viol)
                    dc = next((bytes(c[2]) for c in certs if c[1] == k[0] and c[4]), None)
                    self.check_default('cert', key.has_default_cert, key.default_cert, dc, viol)
                    if strict_ref and dc != self.ref[bytes(r[1])]['keys'][bytes(k[2])]['default']:
                        bad('defaults|cert', 'default certificate differs from the model')
                    if bytes(key.key_bits) != bytes(k[3]):
                        bad('views|key-bits', 'Key.key_bits differs from the stored bits')
            d = next((bytes(r[1]) for r in ids if r[2]), None)
            self.check_default('identity', kc.has_default_identity, kc.default_identity, d, viol)
        except Injected:
            raise
        except Exception as e:  # noqa
            bad(f'views|raises:{type(e).__name__}@{tb_where(e)}', f'reading the views raised {e!r}')

    def check_default(self, scope, has_fn, get_fn, want, viol):
        has = has_fn()
        if bool(has) != (want is not None):
            viol.append((f'C15|defaults|has_default_{scope}', f'has_default_{scope}() = {has}, store says {want is not None}'))
        try:
            got = get_fn()
            gname = nb(got.name)
            if want is None or gname != want:
                viol.append((f'C15|defaults|default_{scope}', f'default_{scope}() returned {gname.hex()[:20]}, store says {None if want is None else want.hex()[:20]}'))
        except KeyError:
            if want is not None:
                viol.append((f'C15|defaults|default_{scope}-missing', f'default_{scope}() raised KeyError although one is stored'))

    def check_view(self, scope, view, members: set, foreign: set, viol):
        def bad(clause, what):
            viol.append((f'C15|views|{scope}|{clause}', what))
        it = [nb(n) for n in view]
        if sorted(it) != sorted(members):
            bad('iter', f'iteration yields {len(it)} names, store has {len(members)} for this {scope}')
        if len(view) != len(members):
            bad('len', f'len() = {len(view)} but the {scope} holds {len(members)} entries')
        for m in members:
            if m not in view:
                bad('contains', 'a member is reported as not contained')
            try:
                got = view[m]
                if nb(got.name) != m:
                    bad('getitem', 'lookup returns an entry with another name')
            except KeyError:
                bad('getitem-missing', 'lookup of a member raises KeyError')
        for f in foreign:
            if f in view:
                bad('foreign-contained', f'an entry of another {scope} is reported as contained')
            try:
                view[f]
                bad('foreign-lookup', f'an entry of another {scope} can be looked up through this one')
            except KeyError:
                pass

    # -- signer oracle -------------------------------------------------------------------------------------------
    def expected_signer(self, args):
        """(key name bytes, locator bytes) per the statement, or None when a refusal is expected"""
        ref = self.ref
        key = cert = None
        if 'cert' in args:
            cert = args['cert']
            for i in ref.values():
                for kn, k in i['keys'].items():
                    if cert in k['certs']:
                        key = kn
            if key is None:
                return None
        else:
            if 'key' in args:
                key = args['key']
                owner = next((i for i in ref.values() if key in i['keys']), None)
                if owner is None:
                    return None
            else:
                idn = args.get('identity', self.default_id)
                if idn is None or idn not in ref:
                    return None
                key = ref[idn]['default']
                if key is None:
                    return None
                owner = ref[idn]
            cert = owner['keys'][key]['default']
            if cert is None:
                return None
        loc = args.get('key_locator', cert)
        return key, loc

    def check_signer(self, label, lib_args, ref_args, viol):
        def bad(clause, what):
            viol.append((f'C15|signer|{label}|{clause}', what))
        want = self.expected_signer(ref_args)
        try:
            signer = self.kc.get_signer(lib_args if label.endswith('kept-arguments') else dict(lib_args))
        except (KeyError, ValueError) as e:
            if want is not None:
                bad(f'refused:{type(e).__name__}@{tb_where(e)}', f'get_signer({label}) raised {e!r} although the selected key and certificate exist')
            return 'refused'
        except Injected:
            raise
        except Exception as e:  # noqa
            bad(f'raises:{type(e).__name__}@{tb_where(e)}', f'get_signer({label}) raised {e!r}')
            return 'raises'
        if want is None:
            bad('signer-for-missing', f'get_signer({label}) returned a signer although the selection does not exist (deleted key / no default)')
            return 'bogus'
        key, loc = want
        try:
            wire = bytes(enc.make_data('/probe/c15', enc.MetaInfo(), b'probe', signer))
            r = ns.read_data(wire)
        except Exception as e:  # noqa
            bad(f'sign-raises:{type(e).__name__}', f'{e!r}')
            return 'raises'
        if r['sig_info'] is None or r['sig_info']['key_name'] != [bytes(c) for c in enc.Name.from_bytes(loc)]:
            bad('key-locator', f'key locator on the signature differs from the selected certificate / given locator')
        bits = next(k['bits'] for i in self.ref.values() for kn, k in i['keys'].items() if kn == key)
        try:
            if len(bits) > 200:
                pkcs1_15.new(RSA.import_key(bits)).verify(SHA256.new(r['signed']), r['sig_value'])
            else:
                DSS.new(ECC.import_key(bits), 'fips-186-3', 'der').verify(SHA256.new(r['signed']), r['sig_value'])
        except ValueError:
            bad('wrong-private-key', 'the signature does not verify under the public key stored for the selected key')
        return 'ok'

    def check_all_signers(self, viol):
        L = nb('/custom/locator')
        forms = [('default', {}, {})]
        # an application that keeps its signing-argument dictionaries and hands the same objects in again after every change
        if not hasattr(self, 'kept_args'):
            self.kept_args = {'': {}}
            for idk, u in IDN.items():
                self.kept_args[idk] = {'identity': u}
        forms.append(('default|kept-arguments', self.kept_args[''], {}))
        for idk, u in IDN.items():
            ib = nb(u)
            forms.append((f'identity', {'identity': u}, {'identity': ib}))
            forms.append((f'identity|kept-arguments', self.kept_args[idk], {'identity': ib}))
            i = self.ref.get(ib)
            if i:
                for kn in i['order']:
                    forms.append(('key-name', {'key': enc.Name.from_bytes(kn)}, {'key': kn}))
                    forms.append(('key-name+locator', {'key': enc.Name.from_bytes(kn), 'key_locator': enc.Name.from_bytes(L)}, {'key': kn, 'key_locator': L}))
                    try:
                        kobj = self.kc[ib][kn]
                        forms.append(('key-object', {'key': kobj}, {'key': kn}))
                    except KeyError:
                        pass
                    for cn in i['keys'][kn]['certs']:
                        forms.append(('cert-name', {'cert': enc.Name.from_bytes(cn)}, {'cert': cn}))
                        forms.append(('cert-name+locator', {'cert': enc.Name.from_bytes(cn), 'key_locator': enc.Name.from_bytes(L)}, {'cert': cn, 'key_locator': L}))
                        try:
                            cobj = self.kc[ib][kn][cn]
                            forms.append(('cert-object', {'cert': cobj}, {'cert': cn}))
                        except KeyError:
                            pass
        for kn in self.deleted_keys:
            forms.append(('deleted-key', {'key': enc.Name.from_bytes(kn)}, {'key': kn}))
            forms.append(('deleted-key+locator', {'key': enc.Name.from_bytes(kn), 'key_locator': enc.Name.from_bytes(L)}, {'key': kn, 'key_locator': L}))
            for cn in self.deleted_certs.get(kn, []):
                forms.append(('deleted-key-cert', {'cert': enc.Name.from_bytes(cn)}, {'cert': cn}))
                forms.append(('deleted-key-cert+locator', {'cert': enc.Name.from_bytes(cn), 'key_locator': enc.Name.from_bytes(L)}, {'cert': cn, 'key_locator': L}))
        for label, la, ra in forms:
            self.check_signer(label, la, ra, viol)
        # what another process opening the same store would get: the private key held for every key is the one its public key belongs to
        for i in self.ref.values():
            for kn, k in i['keys'].items():
                try:
                    wire = bytes(enc.make_data('/probe/c15', enc.MetaInfo(), b'probe', self.kc.tpm.get_signer(enc.Name.from_bytes(kn))))
                    r = ns.read_data(wire)
                    if len(k['bits']) > 200:
                        pkcs1_15.new(RSA.import_key(k['bits'])).verify(SHA256.new(r['signed']), r['sig_value'])
                    else:
                        DSS.new(ECC.import_key(k['bits']), 'fips-186-3', 'der').verify(SHA256.new(r['signed']), r['sig_value'])
                except Injected:
                    raise
                except ValueError:
                    viol.append(('C15|signer|private-key-store|wrong-private-key', f'the private key stored for {enc.Name.to_str(enc.Name.from_bytes(kn))} does not belong '
                                                                                  f'to the public key stored for it'))
                except Exception as e:  # noqa
                    viol.append((f'C15|signer|private-key-store|raises:{type(e).__name__}', f'{e!r}'))

    # -- operations ----------------------------------------------------------------------------------------------
    def perform(self, op):
        """execute the library call of `op`; returns (applicable, exception or None)"""
        kind = op[0]
        kc = self.kc
        if kind in ('touch', 'newid', 'delid', 'defid'):
            u = IDN[op[1]]
            ib = nb(u)
            if kind == 'touch':
                return True, lambda: kc.touch_identity(u)
            if kind == 'newid':
                return True, lambda: kc.new_identity(u)
            if ib not in self.ref:
                return False, None
            if kind == 'delid':
                return True, lambda: kc.del_identity(u)
            return True, lambda: kc.set_default_identity(u)
        if kind == 'newkey':
            u = IDN[op[1]]
            if nb(u) not in self.ref or len(self.ref[nb(u)]['order']) >= 2:
                return False, None
            return True, lambda: kc.new_key(u, key_type=op[2])
        if kind in ('delkey', 'delkey2', 'defkey', 'import', 'signL'):
            k = self.key_of(op[1], op[2])
            if k is None:
                return False, None
            ib = nb(IDN[op[1]])
            if kind == 'delkey':
                # (the name as a one-shot iterator of components - a documented form of a name; the other operations use lists)
                return True, lambda: kc.del_key(c for c in enc.Name.from_bytes(k))
            if kind == 'delkey2':
                return True, lambda: kc[ib].del_key(enc.Name.from_bytes(k))
            if kind == 'defkey':
                return True, lambda: kc[ib].set_default_key(iter(enc.Name.from_bytes(k)))
            if kind == 'signL':
                return True, lambda: kc.get_signer({'key': enc.Name.from_bytes(k), 'key_locator': '/custom/locator'})
            if len(self.ref[ib]['keys'][k]['certs']) >= 2:
                return False, None
            return True, lambda: self.do_import(ib, k)
        if kind in ('delcert', 'delcert2', 'defcert'):
            k, c = self.cert_of(op[1], op[2], op[3])
            if c is None:
                return False, None
            ib = nb(IDN[op[1]])
            if kind == 'delcert':
                return True, lambda: kc.del_cert(x for x in enc.Name.from_bytes(c))
            if kind == 'delcert2':
                return True, lambda: kc[ib][k].del_cert(enc.Name.from_bytes(c))
            return True, lambda: kc[ib][k].set_default_cert(enc.Name.from_bytes(c))
        if kind == 'newkey-id':
            # a key with an identifier chosen by the application (documented keyword key_id): fine once, refused the second time - and the
            # refusal must leave the existing key of that name as it was
            u = IDN[op[1]]
            if nb(u) not in self.ref:
                return False, None
            exists = nb(u + '/KEY/fixed-id') in self.ref[nb(u)]['keys']
            if not exists and len(self.ref[nb(u)]['order']) >= 2:
                return False, None
            return True, lambda: kc.new_key(u, key_type='ec', key_id='fixed-id')
        if kind == 'defkey-gone':
            # the application still holds the name of a key it deleted earlier and names it as default: nothing of that name exists,
            # so nothing changes (refusing with KeyError is as good)
            ib = nb(IDN[op[1]])
            if ib not in self.ref or not self.ref[ib]['keys']:
                return False, None
            idn = [bytes(c) for c in enc.Name.from_str(IDN[op[1]])]
            gone = sorted(k for k in self.deleted_keys if [bytes(c) for c in enc.Name.from_bytes(k)][:-2] == idn)
            if not gone:
                gone = [nb(IDN[op[1]] + '/KEY/%99%98')]       # (or one that was removed from another process)
            return True, lambda: kc[ib].set_default_key(enc.Name.from_bytes(gone[0]))
        if kind == 'defcert-gone':
            # the application names, as default certificate of a key, a certificate that is not (or no longer) one of that key's: a
            # sibling key's certificate, a certificate deleted earlier, or one that never existed.  Nothing of that name exists under
            # the key, so nothing changes (refusing with KeyError is as good)
            ib = nb(IDN[op[1]])
            k = self.key_of(op[1], op[2])
            if k is None or not self.ref[ib]['keys'][k]['certs']:
                return False, None
            other = self.key_of(op[1], 1 - op[2])
            cands = []
            if other is not None:
                oc = self.ref[ib]['keys'][other]
                cands = [c for c in oc['certs'] if c != oc['default']] + [c for c in oc['certs'] if c == oc['default']]
            cands += [c for c in self.deleted_certs.get(k, []) if c not in self.ref[ib]['keys'][k]['certs']]
            cands.append(nb(enc.Name.to_str(enc.Name.from_bytes(k)) + '/nobody/v=1'))
            return True, lambda: self.kc[ib][k].set_default_cert(enc.Name.from_bytes(cands[0]))
        if kind in ('delcert-foreign', 'defkey-foreign', 'delkey-foreign'):
            # a view is scoped to its owner: asking the key / identity object of one owner to delete or to prefer an entry that belongs to
            # another owner changes nothing (refusing with KeyError is as good)
            ia, ib2 = nb(IDN['a']), nb(IDN['b'])
            if ia not in self.ref or ib2 not in self.ref:
                return False, None
            if kind == 'delcert-foreign':
                ka, kb = self.key_of('a', 0), self.key_of('b', 0)
                if ka is None or kb is None or not self.ref[ib2]['keys'][kb]['certs']:
                    return False, None
                c = self.ref[ib2]['keys'][kb]['certs'][0]
                return True, lambda: self.kc[ia][ka].del_cert(enc.Name.from_bytes(c))
            order = self.ref[ib2]['order']
            if not order or not self.ref[ia]['keys']:
                return False, None
            # (for the default: a key of the other identity that is not its default, if it has one)
            kb = next((k for k in order if k != self.ref[ib2]['default']), order[0])
            if kind == 'defkey-foreign':
                return True, lambda: self.kc[ia].set_default_key(enc.Name.from_bytes(kb))
            return True, lambda: self.kc[ia].del_key(enc.Name.from_bytes(kb))
        if kind == 'import-dup':
            # a certificate that is already filed under its own key is imported once more under another key of the identity: whatever
            # the store makes of that, the key that owns the certificate keeps it
            ib = nb(IDN[op[1]])
            k0, k1 = self.key_of(op[1], 0), self.key_of(op[1], 1)
            if k0 is None or k1 is None or not self.ref[ib]['keys'][k0]['certs']:
                return False, None
            c = self.ref[ib]['keys'][k0]['certs'][0]
            data = bytes(self.kc[ib][k0][c].data)
            return True, lambda: kc.import_cert(enc.Name.from_bytes(k1), enc.Name.from_bytes(c), data)
        if kind == 'reopen':
            return True, self.reopen
        raise ValueError(op)

    def reopen(self):
        self.kc.shutdown() if hasattr(self.kc.conn, '_c') is False else (self.kc.conn._c.close(), setattr(self.kc, 'conn', None))
        self.open()

    def do_import(self, ib, k):
        self.ncert += 1
        bits = self.ref[ib]['keys'][k]['bits']
        signer = self.kc.tpm.get_signer(enc.Name.from_bytes(k))
        name, data = sv2.derive_cert(enc.Name.from_bytes(k), f'imp{self.ncert}', bits, signer,
                                     dt.datetime(2024, 1, 1), 3600)
        self._last_import = nb(name)
        self.kc.import_cert(enc.Name.from_bytes(k), name, data)

    def model(self, op):
        """update the reference model for a successful `op`"""
        kind = op[0]
        ref = self.ref
        if kind in ('touch', 'newid'):
            ib = nb(IDN[op[1]])
            created = ib not in ref
            if created:
                ref[ib] = {'keys': {}, 'default': None, 'order': []}
            if self.default_id is None:
                self.default_id = ib
            if kind == 'touch' and created:
                self.model_newkey(ib)
        elif kind in ('newkey', 'newkey-id'):
            self.model_newkey(nb(IDN[op[1]]))
        elif kind == 'delid':
            ib = nb(IDN[op[1]])
            for k in ref[ib]['keys']:
                self.deleted_keys.add(k)
                self.deleted_certs[k] = list(ref[ib]['keys'][k]['certs'])
            del ref[ib]
            if self.default_id == ib:
                self.default_id = None
        elif kind == 'defid':
            self.default_id = nb(IDN[op[1]])
        elif kind in ('delkey', 'delkey2'):
            ib = nb(IDN[op[1]])
            k = self.key_of(op[1], op[2])
            self.deleted_certs[k] = list(ref[ib]['keys'][k]['certs'])
            del ref[ib]['keys'][k]
            ref[ib]['order'].remove(k)
            self.deleted_keys.add(k)
            if ref[ib]['default'] == k:
                ref[ib]['default'] = None
        elif kind == 'defkey':
            ib = nb(IDN[op[1]])
            ref[ib]['default'] = self.key_of(op[1], op[2])
        elif kind == 'import':
            ib = nb(IDN[op[1]])
            k = self.key_of(op[1], op[2])
            ref[ib]['keys'][k]['certs'].append(self._last_import)
            if ref[ib]['keys'][k]['default'] is None:
                ref[ib]['keys'][k]['default'] = self._last_import
        elif kind in ('delcert', 'delcert2'):
            ib = nb(IDN[op[1]])
            k, c = self.cert_of(op[1], op[2], op[3])
            ref[ib]['keys'][k]['certs'].remove(c)
            if ref[ib]['keys'][k]['default'] == c:
                ref[ib]['keys'][k]['default'] = None
        elif kind == 'defcert':
            ib = nb(IDN[op[1]])
            k, c = self.cert_of(op[1], op[2], op[3])
            ref[ib]['keys'][k]['default'] = c

    def model_newkey(self, ib):
        # learn the names the store chose (random key id, timestamped certificate) from the store itself
        ids, keys, certs, files = self.dump()
        rid = next(r[0] for r in ids if bytes(r[1]) == ib)
        known = set(self.ref[ib]['keys'])
        new = [k for k in keys if k[1] == rid and bytes(k[2]) not in known]
        if len(new) != 1:
            raise AssertionError(f'new key not found in the store: {len(new)} candidates')
        k = new[0]
        cs = [bytes(c[2]) for c in certs if c[1] == k[0]]
        self.ref[ib]['keys'][bytes(k[2])] = {'certs': list(cs), 'default': cs[0] if cs else None, 'bits': bytes(k[3])}
        self.ref[ib]['order'].append(bytes(k[2]))
        if self.ref[ib]['default'] is None:
            self.ref[ib]['default'] = bytes(k[2])
        self.deleted_keys.discard(bytes(k[2]))

    def apply(self, op, check=True):
        viol = []
        applicable, call = self.perform(op)
        if not applicable:
            return viol
        expect_refusal = op[0] == 'newid' and nb(IDN[op[1]]) in self.ref
        dup_key = op[0] == 'newkey-id' and nb(IDN[op[1]] + '/KEY/fixed-id') in self.ref.get(nb(IDN[op[1]]), {'keys': {}})['keys']
        try:
            try:
                call()
            except Exception:  # noqa
                if op[0] not in ('defkey-gone', 'defcert-gone', 'import-dup', 'delcert-foreign', 'defkey-foreign', 'delkey-foreign') and not dup_key:
                    raise
                # refusing is fine; the state is compared below all the same
            if dup_key:
                pass            # refused or not, the state is compared below
            elif expect_refusal:
                viol.append(('C15|op|duplicate-identity-accepted', f'new_identity on an existing identity did not raise; op {op}'))
            else:
                try:
                    self.model(op)
                except AssertionError as e:
                    viol.append((f'C15|op|{op[0]}|postcondition', f'{e}; op {op}'))
                    return viol
        except KeyError as e:
            if op[0] == 'signL' and self.expected_signer({'key': self.key_of(op[1], op[2])}) is None:
                expect_refusal = True        # no default certificate: refusing is a documented outcome
            if not expect_refusal:
                viol.append((f'C15|op|{op[0]}|raises:KeyError@{tb_where(e)}', f'{op} raised {e!r}'))
                return viol
        except Exception as e:  # noqa
            viol.append((f'C15|op|{op[0]}|raises:{type(e).__name__}@{tb_where(e)}', f'{op} raised {e!r}'))
            return viol
        if check:
            self.check_state(viol)
            if not viol:
                self.check_all_signers(viol)
        return [(s, w + f'; after op {op}') for s, w in viol]

    # -- postconditions used after an injected fault ----------------------------------------------------------------
    def note_deleted(self, before):
        """keys that existed before the (failed / repeated) operation and are gone from the store now count as deleted"""
        now = {k for v in self.ref.values() for k in v['keys']}
        for k, certs in before['allkeys'].items():
            if k not in now:
                self.deleted_keys.add(k)
                self.deleted_certs.setdefault(k, list(certs))

    def postcondition(self, op, before):
        """holds on the actual store after the operation finally succeeded (reference re-synchronised from the store)"""
        kind = op[0]
        ref = self.ref
        lost = [i for i in before['ids'] if i not in ref and not (kind == 'delid' and i == nb(IDN[op[1]]))]
        if lost:
            return 'an identity that existed before the failed operation is gone afterwards'
        if kind in ('touch', 'newid'):
            ib = nb(IDN[op[1]])
            if ib not in ref:
                return 'identity missing after the operation succeeded'
            if kind == 'touch':
                i = ref[ib]
                if not i['keys'] or i['default'] is None or any(k['default'] is None for k in i['keys'].values() if k['certs'] == []) \
                        or i['keys'][i['default']]['default'] is None:
                    if ib not in before['ids']:
                        return 'touch_identity returned an identity without a usable default key and certificate'
        elif kind == 'newkey':
            ib = nb(IDN[op[1]])
            if ib not in ref:
                return 'the identity that existed before the failed operation is gone'
            if len(ref[ib]['keys']) <= before['nkeys'].get(ib, 0):
                return 'new_key succeeded but the identity has no additional key'
        elif kind == 'delid':
            if nb(IDN[op[1]]) in ref:
                return 'identity still present after del_identity succeeded'
        elif kind in ('delkey', 'delkey2'):
            if before['target'] in {k for i in ref.values() for k in i['keys']}:
                return 'key still present after del_key succeeded'
        elif kind in ('delcert', 'delcert2'):
            if before['target'] in self.all_cert_names():
                return 'certificate still present after del_cert succeeded'
        elif kind == 'defid':
            if self.default_id != nb(IDN[op[1]]):
                return 'set_default_identity succeeded but the identity is not the default'
        elif kind == 'defkey':
            ib = nb(IDN[op[1]])
            if ib not in ref:
                return 'the identity that existed before the failed operation is gone'
            if ref[ib]['default'] != before['target']:
                return 'set_default_key succeeded but the key is not the default'
        elif kind == 'defcert':
            if not any(k['default'] == before['target'] for i in ref.values() for k in i['keys'].values()):
                return 'set_default_cert succeeded but the certificate is not the default'
        elif kind == 'import':
            pass
        return None


# -- alphabet -------------------------------------------------------------------------------------------------------
def alphabet(tier):
    ops = [('touch', 'a'), ('touch', 'b'), ('newid', 'a'), ('newid', 'b'), ('newkey', 'a', 'ec'), ('newkey', 'b', 'ec'), ('newkey', 'a', 'rsa'),
           ('import', 'a', 0), ('import', 'a', 1), ('import', 'b', 0),
           ('defid', 'a'), ('defid', 'b'), ('defkey', 'a', 0), ('defkey', 'a', 1), ('defkey', 'b', 0),
           ('defcert', 'a', 0, 0), ('defcert', 'a', 0, 1), ('defcert', 'a', 1, 0),
           ('delcert', 'a', 0, 0), ('delcert', 'a', 0, 1), ('delcert2', 'a', 0, 0), ('delcert', 'b', 0, 0),
           ('delkey', 'a', 0), ('delkey', 'a', 1), ('delkey2', 'a', 0), ('delkey', 'b', 0),
           ('delid', 'a'), ('delid', 'b'), ('signL', 'a', 0), ('signL', 'a', 1), ('signL', 'b', 0), ('reopen',),
           ('defkey-gone', 'a'), ('import-dup', 'a'), ('newkey-id', 'a'), ('defcert-gone', 'a', 0), ('defcert-gone', 'a', 1), ('delcert-foreign',), ('defkey-foreign',), ('delkey-foreign',)]
    return ops


def op_json(op):
    return list(op)


# -- fault / crash enumeration ----------------------------------------------------------------------------------------
def run_fault(hist, mode):
    """replay hist[:-1] normally, then for every storage step of hist[-1]: inject, recover, repeat; returns (violations, n_steps)"""
    viol = []
    last = hist[-1]
    # count the steps of the last operation
    w = World()
    try:
        for op in hist[:-1]:
            w.apply(op, check=False)
        applicable, call = w.perform(last)
        if not applicable:
            return viol, 0
        w.steps.n = 0
        try:
            call()
        except Exception:  # noqa
            return viol, 0
        n = w.steps.n
    finally:
        w.close()
    for k in range(1, n + 1):
        w = World()
        try:
            for op in hist[:-1]:
                w.apply(op, check=False)
            applicable, call = w.perform(last)
            before = {'ids': set(w.ref), 'nkeys': {i: len(v['keys']) for i, v in w.ref.items()}, 'target': None,
                      'allkeys': {k: list(kv['certs']) for v in w.ref.values() for k, kv in v['keys'].items()}}
            if last[0] in ('delkey', 'delkey2', 'defkey'):
                before['target'] = w.key_of(last[1], last[2])
            if last[0] in ('delcert', 'delcert2', 'defcert'):
                before['target'] = w.cert_of(last[1], last[2], last[3])[1]
            w.steps.n = 0
            w.steps.at = k
            where = None
            w.steps.fired = None
            swallowed = False
            try:
                call()
                if w.steps.fired is None:
                    continue        # the injected step was not reached (non-deterministic step count would be a harness bug)
                # the storage failure happened but the operation reported success: it must then have completed its work
                swallowed = True
                where = w.steps.fired
            except (sqlite3.OperationalError, OSError) as e:
                where = w.steps.log[-1] if w.steps.log else '?'
            except Exception as e:  # noqa
                viol.append((f'C15|fault|{last[0]}|first-attempt-raises:{type(e).__name__}@{tb_where(e)}', f'{e!r}; history {hist} step {k}'))
                continue
            w.steps.at = None
            if swallowed:
                w.resync()
                w.note_deleted(before)
                msg = w.postcondition(last, before)
                if msg:
                    viol.append((f'C15|fault|swallowed|{last[0]}|postcondition',
                                 f'{msg}; a storage failure at step {k} ({where}) was not reported and the operation returned normally; history {hist}'))
                sub = []
                w.check_state(sub, strict_ref=False)
                if not sub:
                    w.check_all_signers(sub)
                for s_, x in sub:
                    viol.append((s_.replace('C15|', f'C15|fault|swallowed|{last[0]}|', 1),
                                 x + f'; unreported storage failure at step {k} ({where}); history {hist}'))
                continue
            if mode == 'crash':
                w.crash()
            else:
                # an application that goes on using the same keychain object after the error (it has no way to roll anything back
                # itself: the operation that failed must not leave pending work behind)
                pass
            w.resync()
            # repeat the operation
            applicable, call = w.perform(last)
            # (a key with a chosen identifier that the interrupted attempt did create is rightly refused the second time)
            dup = last[0] == 'newkey-id' and nb(IDN[last[1]] + '/KEY/fixed-id') in w.ref.get(nb(IDN[last[1]]), {'keys': {}})['keys']
            if applicable:
                try:
                    try:
                        call()
                    except Exception:  # noqa
                        if not dup:
                            raise
                except KeyError as e:
                    if last[0] != 'newid':
                        viol.append((f'C15|fault|{mode}|{last[0]}|repeat-raises:KeyError@{tb_where(e)}',
                                     f'repeating {last} after a failure at step {k} ({where}) raised {e!r}; history {hist}'))
                        continue
                except Exception as e:  # noqa
                    viol.append((f'C15|fault|{mode}|{last[0]}|repeat-raises:{type(e).__name__}@{tb_where(e)}',
                                 f'repeating {last} after a failure at step {k} ({where}) raised {e!r}; history {hist}'))
                    continue
            w.resync()
            w.note_deleted(before)
            msg = w.postcondition(last, before)
            if msg:
                viol.append((f'C15|fault|{mode}|{last[0]}|postcondition', f'{msg}; failure at step {k} ({where}); history {hist}'))
            sub = []
            w.check_state(sub, strict_ref=False)
            if not sub:
                w.check_all_signers(sub)
            for s, x in sub:
                viol.append((s.replace('C15|', f'C15|fault|{mode}|{last[0]}|', 1), x + f'; failure at step {k} ({where}); history {hist}'))
        finally:
            w.close()
    return viol, n


_FH = {}


def fault_histories(depth):
    if depth not in _FH:
        ops = alphabet('x')
        hists = []
        explore_histories(lambda: QuietWorld(), ops, depth, [(ops[i],) for i in range(4)], lambda h, k, v, s: hists.append(h))
        _FH[depth] = hists
    return _FH[depth]


def plan(tier, seed):
    ops = alphabet(tier)
    depth = 3 if tier == 'quick' else 4
    fdepth = 2 if tier == 'quick' else 3
    # histories must start by creating an identity (first four operations); one search per first two operations
    units = [{'kind': 'bfs', 'first': i, 'second': j, 'depth': depth} for i in range(4) for j in range(len(ops))]
    hists = fault_histories(fdepth)
    units += [{'kind': 'fault', 'lo': lo, 'hi': min(len(hists), lo + 6), 'depth': fdepth, 'mode': m}
              for lo in range(0, len(hists), 6) for m in ('raise', 'crash')]
    return {
        'units': units,
        'rule': 'bfs: state = operation history replayed on a fresh store; dedup on (table dump with row ids and default flags, key-file counts, '
                'signer-cache size); one search per first operation (only identity-creating first operations change the empty store). fault: for '
                'every history of the smaller depth, one execution per (storage step of the last operation, raise|crash). Non-trivial = history '
                'with a delete or a set-default, or any fault execution.',
        'bounds': {'operations': len(ops), 'depth': depth, 'fault_depth': fdepth, 'identities': 2, 'keys_per_identity': 2, 'certs_per_key': 2},
        'assumptions': ['after an injected failure the application rolls back the connection before retrying (raise mode) or reopens the store (crash mode)',
                        'after a fault the reference is re-synchronised from the store: invariants and the operation\'s postcondition are required, '
                        'extra completed work of the failed attempt is tolerated',
                        'key pairs come from a committed fixture pool (RSA generation is too slow); key ids from a DRBG'],
    }


def unit(arg):
    acc = Acc()
    ops = alphabet('x')
    if arg['kind'] == 'bfs':
        first = ops[arg['first']]
        def on_t(hist, key, viol, summary):
            acc.evaluations += 1
            acc.transitions += 1
            acc.state(hash(key))
            if any(o[0].startswith(('del', 'def')) for o in hist):
                acc.nontrivial += 1
            acc.outcome(f"{hist[-1][0]}|{'viol' if viol else 'ok'}")
            acc.observe([repr(hist), repr(key), [v[0] for v in viol]])
            seen = set()
            for sig, what in viol:
                if sig not in seen:
                    seen.add(sig)
                    acc.violation(sig, what + f'; history {list(hist)}', {'kind': 'bfs', 'hist': [op_json(o) for o in hist]})
            if acc.evaluations % 300 == 1:
                acc.sample({'history': [repr(o) for o in hist], 'state': summary})
        res = explore_histories(World, ops, arg['depth'], [(first, ops[arg['second']])] + ([(first,)] if arg['second'] == 0 else []), on_t)
        acc.notes['bfs_states'] += res['states']
    else:
        # enumerate histories by a plain BFS without oracle, then fault-inject the last operation of each
        hists = fault_histories(arg['depth'])[arg['lo']:arg['hi']]
        for hist in hists:
            v, n = run_fault(hist, arg['mode'])
            acc.evaluations += n
            acc.transitions += n
            acc.nontrivial += n
            acc.state(hash((hist, arg['mode'])))
            acc.outcome(f"fault|{arg['mode']}|{hist[-1][0]}|steps={n}|{'viol' if v else 'ok'}")
            acc.observe([repr(hist), arg['mode'], n, sorted({x[0] for x in v})])
            seen = set()
            for sig, what in v:
                if sig not in seen:
                    seen.add(sig)
                    acc.violation(sig, what, {'kind': 'fault', 'hist': [op_json(o) for o in hist], 'mode': arg['mode']})
        acc.sample({'fault_mode': arg['mode'], 'histories': len(hists), 'last': [repr(o) for o in (hists[-1] if hists else [])]})
    return acc


class QuietWorld(World):
    def apply(self, op, check=True):
        return super().apply(op, check=False)


def replay(case):
    hist = [tuple(o) for o in case['hist']]
    if case['kind'] == 'fault':
        v, _ = run_fault(hist, case['mode'])
        return [{'sig': s, 'what': w} for s, w in v]
    w = World()
    out = []
    try:
        for op in hist:
            v = w.apply(op)
            if v:
                out = v
                break
    finally:
        w.close()
    return [{'sig': s, 'what': x} for s, x in out]
