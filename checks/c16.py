"""
C16 - issued certificates are well-formed, correctly named and verifiable.

E-input: complete product of key names (0..3 identity components, ids with reserved characters, a component-length sweep
that moves the certificate size across the 253-byte boundary) x issuer id (text / component / typed component) x
subject key (EC P-256, P-384, RSA-2048, Ed25519) x issuing signer (ECDSA over many nonces so that every DER length
occurs, RSA, Ed25519, HMAC) x validity start instants (epoch, year boundaries, leap day) x durations, for derive_cert;
self_sign and sign_req with the module clock owned.
Oracle: strict reference Data reader + direct pycryptodome verification over the reference-located signed range.
"""
from __future__ import annotations

import datetime as dt
import itertools

from Cryptodome.Hash import SHA256, HMAC
from Cryptodome.PublicKey import ECC, RSA
from Cryptodome.Signature import DSS, pkcs1_15, eddsa

import ndn.encoding as enc
from mc.ndnenv import owned_env
from ndn.app_support import security_v2 as sv2
from ndn.security import Sha256WithEcdsaSigner, Sha256WithRsaSigner, Ed25519Signer, HmacSha256Signer

from mc.core import Acc
from mc.seams import owned_random, fixed_now, key_der, pub_der
from mc.ref import tlv_strict as ts
from mc.ref import ndn_strict as ns
from mc.vloop import tb_where

PROPERTY = 'C16'

KEY_COMP = ts.tlv(8, b'KEY')
STARTS = ['1970-01-01T00:00:00', '1999-12-31T23:59:59', '2000-01-01T00:00:00', '2024-02-29T12:00:00',
          '2024-12-30T00:00:01', '2027-12-31T23:59:59', '2026-09-24T08:15:30']
DURATIONS = [0, 1, 86400, 365 * 86400, 20 * 365 * 86400 + 5 * 86400]
SUBJECTS = ['ec256_1', 'ec384_0', 'rsa2048_1', 'ed25519_1']
ISSUERS = ['ecdsa', 'rsa', 'ed', 'hmac', 'ecdsa521', 'ecdsa384', 'ecdsa224']
EC_ISSUER_KEY = {'ecdsa': 'ec256_0', 'ecdsa521': 'ec521_0', 'ecdsa384': 'ec384_1', 'ecdsa224': 'ec224_0'}
ISSUER_IDS = [('str', 'issuer1'), ('str', 'a-b_c.d~e'), ('str-escaped', 'Root%20CA'), ('str-version', 'v=7'), ('str-typed', '32=ndn'), ('comp', ts.tlv(8, b'x/y%z= ')), ('typed', ts.tlv(0x20, b'kw')),
              ('comp-empty', ts.tlv(8, b''))]


TEXT_ISSUER = {'Root%20CA': ts.tlv(8, b'Root CA'), 'v=7': ts.tlv(0x36, b'\x07'), '32=ndn': ts.tlv(32, b'ndn')}


def key_names():
    """(label, list of component wires ending with KEY/<id>)"""
    ids = [ts.tlv(8, b'\x01\x02\x03\x04\x05\x06\x07\x08'), ts.tlv(8, b'k/e%y=1'), ts.tlv(8, b'')]
    idents = [[], [ts.tlv(8, b'alice')], [ts.tlv(8, b'org'), ts.tlv(8, b'unit'), ts.tlv(0x20, b'dept')]]
    for a, b in itertools.product(range(len(idents)), range(len(ids))):
        yield f'ident{a}-id{b}', idents[a] + [KEY_COMP, ids[b]]
    # an identity that is itself named after a key (a subordinate of /org/KEY/root-1): the key name has two KEY components
    yield 'nested-key', [ts.tlv(8, b'org'), KEY_COMP, ts.tlv(8, b'root-1'), KEY_COMP, ts.tlv(8, b'sub-7')]
    yield 'nested-key-2', [KEY_COMP, ts.tlv(8, b'a'), KEY_COMP, ts.tlv(8, b'b')]


def issuer_signer(kind, loc=None):
    loc = loc or '/issuer/' + kind + '/KEY/%01'
    if kind in EC_ISSUER_KEY:
        return Sha256WithEcdsaSigner(loc, key_der(EC_ISSUER_KEY[kind])), loc
    if kind == 'rsa':
        return Sha256WithRsaSigner(loc, key_der('rsa2048_0')), loc
    if kind == 'ed':
        return Ed25519Signer(loc, key_der('ed25519_0')), loc
    return HmacSha256Signer(loc, b'issuer-hmac-key'), loc


def direct_verify(kind, signed: bytes, sig: bytes) -> bool:
    try:
        if kind in EC_ISSUER_KEY:
            DSS.new(ECC.import_key(pub_der(EC_ISSUER_KEY[kind])), 'fips-186-3', 'der').verify(SHA256.new(signed), sig)
        elif kind == 'rsa':
            pkcs1_15.new(RSA.import_key(pub_der('rsa2048_0'))).verify(SHA256.new(signed), sig)
        elif kind == 'ed':
            eddsa.new(ECC.import_key(pub_der('ed25519_0')), 'rfc8032').verify(signed, sig)
        else:
            HMAC.new(b'issuer-hmac-key', signed, digestmod=SHA256).verify(sig)
        return True
    except ValueError:
        return False


SIGTYPE = {'ecdsa': 3, 'rsa': 1, 'ed': 5, 'hmac': 4, 'ecdsa521': 3, 'ecdsa384': 3, 'ecdsa224': 3}


def stamp(d: dt.datetime) -> bytes:
    return d.strftime('%Y%m%dT%H%M%S').encode()


def ref_stamp(d: dt.datetime) -> bytes:
    return b'%04d%02d%02dT%02d%02d%02d' % (d.year, d.month, d.day, d.hour, d.minute, d.second)


def ref_locator(loc):
    """component wires of a key locator given as a URI of generic components, or as a list of text / wire elements (text elements
    are UTF-8)"""
    from urllib.parse import unquote_to_bytes
    if isinstance(loc, str):
        return [ts.tlv(8, unquote_to_bytes(p)) for p in loc.strip('/').split('/')]
    import re
    conv = {'seg': 0x32, 'off': 0x34, 'v': 0x36, 't': 0x38, 'seq': 0x3A}

    def text(x):
        # a text element is one component in URI syntax: a naming-convention shorthand, '<type>=<value>', or a generic value
        m = re.match(r'^(seg|off|v|t|seq)=(\d+)$', x)
        if m:
            return ts.tlv(conv[m.group(1)], ts.uint(int(m.group(2))))
        m = re.match(r'^(\d+)=(.*)$', x)
        if m:
            return ts.tlv(int(m.group(1)), unquote_to_bytes(m.group(2)))
        return ts.tlv(8, unquote_to_bytes(x))
    return [text(x) if isinstance(x, str) else bytes(x) for x in loc]


def check_cert(wire, key_name, issuer_comp, pub, issuer_kind, loc, nb: dt.datetime, na: dt.datetime, version_ms, tag):
    viol = []

    def bad(clause, what):
        viol.append((f'C16|{tag}|{clause}', what))
    wire = bytes(wire)
    try:
        top = ts.read_single(wire, minimal=True)
        r = ns.read_data(wire, minimal=True, cert=True)
    except ts.Malformed as e:
        bad(f'malformed:{e.clause}', f'certificate is not one well-formed Data element: {e} (len {len(wire)})')
        return viol
    want_name = list(key_name) + [issuer_comp]
    if r['name'][:-1] != want_name:
        bad('name', f'certificate name {[c.hex() for c in r["name"]]} does not start with key-name/issuer-id')
    else:
        ver = ts.read_single(r['name'][-1])
        if ver.typ != 0x36:
            bad('version-component', f'last name component has type {ver.typ:#x}, expected a version component')
        elif version_ms is not None and int.from_bytes(ver.value, 'big') != version_ms:
            bad('version-value', f'version {int.from_bytes(ver.value, "big")} != clock {version_ms}')
    if r['content'] != pub:
        bad('content', 'Content is not exactly the given public key')
    if r['meta'] is None or r['meta']['content_type'] != 2:
        bad('content-type', f"ContentType {None if r['meta'] is None else r['meta']['content_type']} != KEY(2)")
    si = r['sig_info']
    if si is None or r['sig_value'] is None:
        bad('unsigned', 'SignatureInfo / SignatureValue missing')
        return viol
    if si['type'] != SIGTYPE[issuer_kind]:
        bad('signature-type', f"{si['type']}")
    want_loc = ref_locator(loc)
    if si['key_name'] != want_loc:
        bad('key-locator', f"KeyLocator {si['key_name']} != the issuing signer's {want_loc}")
    if si['not_before'] != ref_stamp(nb) or si['not_after'] != ref_stamp(na):
        bad('validity', f"ValidityPeriod {si['not_before']}..{si['not_after']} != requested {ref_stamp(nb)}..{ref_stamp(na)}")
    if not direct_verify(issuer_kind, r['signed'], r['sig_value']):
        bad('signature', f'signature ({len(r["sig_value"])} B) does not verify under the issuing key over Name..SignatureInfo')
    # the library's own parsers return the same
    try:
        c = sv2.parse_certificate(wire)
        if [bytes(x) for x in c.name] != r['name'] or bytes(c.content) != r['content'] or c.meta_info.content_type != 2:
            bad('parse_certificate-fields', 'name/content/content type differ')
        vp = c.signature_info.validity_period
        if bytes(vp.not_before) != si['not_before'] or bytes(vp.not_after) != si['not_after']:
            bad('parse_certificate-validity', 'validity period differs')
        if [bytes(x) for x in c.signature_info.key_locator.name] != si['key_name'] or bytes(c.signature_value) != r['sig_value']:
            bad('parse_certificate-signature', 'key locator / signature value differ')
        n2, m2, c2, s2 = enc.parse_data(wire)
        if [bytes(x) for x in n2] != r['name'] or bytes(c2) != r['content'] or b''.join(bytes(x) for x in s2.signature_covered_part) != r['signed']:
            bad('parse_data-fields', 'parse_data disagrees with the wire')
    except Exception as e:  # noqa
        bad(f'parse-raises:{type(e).__name__}', f'{e!r} (len {len(wire)}, outer length form {top.vstart - 1})')
    return viol


def derive_cases(tier):
    # A: full product over names x issuer ids x subjects x issuers at one instant
    for (kl, kn), (il, iid), subj, iss in itertools.product(list(key_names()), ISSUER_IDS, SUBJECTS, ISSUERS):
        yield {'f': 'derive', 'kn': kl, 'iid': il, 'subj': subj, 'iss': iss, 'start': STARTS[3], 'dur': DURATIONS[2], 'it': 0}
    # B: all instants x durations (x aware/naive) for two issuers
    for st, du, aware, iss in itertools.product(STARTS, DURATIONS, (False, True), ('ed', 'ecdsa')):
        yield {'f': 'derive', 'kn': 'ident1-id0', 'iid': 'str', 'subj': 'ec256_1', 'iss': iss, 'start': st, 'dur': du, 'aware': aware, 'it': 1}
    # B2: the same instants in a process whose local time zone is not UTC (naive datetimes are taken as they are, aware ones
    #     are UTC): the local zone must not leak into the validity period
    for tz in ('EST+5', 'IST-5:30'):
        for st, aware in itertools.product(STARTS, (False, True)):
            yield {'f': 'derive', 'kn': 'ident1-id0', 'iid': 'str', 'subj': 'ec256_1', 'iss': 'ed', 'start': st, 'dur': 86400, 'aware': aware, 'it': 1, 'tz': tz}
        for f in ('self', 'req'):
            yield {'f': f, 'kn': 'ident1-id1', 'subj': 'ec256_1', 'iss': 'ed', 'now': '2024-02-29T12:00:00+00:00', 'it': 0, 'tz': tz}
    # C: size sweep: a padded identity component moves the certificate across the 253 / 65536 byte boundaries, for every
    #    DER length of the ECDSA signature (many nonces) and for short subject keys
    nonces = 8 if tier == 'quick' else 24
    for subj in ('ed25519_1', 'ec256_1'):
        for pad in list(range(0, 120)) + ([65200 + 8 * i for i in range(40)] if tier == 'thorough' else [65290, 65300, 65310]):
            for it in range(nonces if pad < 1000 else 3):
                yield {'f': 'derive', 'kn': 'pad', 'pad': pad, 'iid': 'str', 'subj': subj, 'iss': 'ecdsa', 'start': STARTS[6], 'dur': 3600, 'it': it}
    # C2: the other curves as issuers, many nonces each (the DER length of a P-521 signature varies between 137 and 139)
    for iss in ('ecdsa521', 'ecdsa384', 'ecdsa224'):
        for it in range(nonces * 3):
            yield {'f': 'derive', 'kn': 'ident1-id0', 'iid': 'str', 'subj': 'ec256_1', 'iss': iss, 'start': STARTS[6], 'dur': 3600, 'it': it}
    # T: key name and key locator given with text elements outside ASCII (UTF-8 in the name)
    for iss in ('ed', 'ecdsa', 'rsa'):
        yield {'f': 'derive', 'kn': 'text', 'iid': 'str', 'subj': 'ec256_1', 'iss': iss, 'start': STARTS[3], 'dur': 3600, 'it': 0, 'text': True}
    for f in ('self', 'req'):
        yield {'f': f, 'kn': 'text', 'subj': 'ec256_1', 'iss': 'ed', 'now': '2024-02-29T12:00:00+00:00', 'it': 0, 'text': True}
    for iss in ('ed', 'ecdsa', 'rsa'):
        yield {'f': 'derive', 'kn': 'ident1-id0', 'iid': 'str', 'subj': 'ec256_1', 'iss': iss, 'start': STARTS[3], 'dur': 3600, 'it': 0, 'typedtext': True}
    for iss in ('ed', 'ecdsa', 'rsa', 'hmac'):
        yield {'f': 'derive', 'kn': 'ident1-id0', 'iid': 'str', 'subj': 'ec256_1', 'iss': iss, 'start': STARTS[3], 'dur': 3600, 'it': 0, 'locgen': True}
    # W: public keys whose DER encoding begins / ends with an octet that is white space in ASCII (the last octet of an EC point is any
    #    value); instants with a sub-second part and durations that are not whole seconds
    for ws in (b'\x0a', b'\x20', b'\x09', b'\x0d'):
        for f in ('derive', 'self', 'req'):
            c = {'f': f, 'kn': 'ident1-id0', 'subj': 'ec256_1', 'iss': 'ed', 'it': 0, 'keytail': ws.hex()}
            c.update({'iid': 'str', 'start': STARTS[3], 'dur': 3600} if f == 'derive' else {'now': '2024-02-29T12:00:00+00:00'})
            yield c
    for st, du in (('2024-12-31T23:59:59.600000', 0.5), ('2024-12-31T23:59:59.600000', 0.25), ('2024-02-28T23:59:58.999999', 1.000001),
                   ('2024-02-29T12:00:00.500000', 3600), ('2024-02-29T12:00:00', 0.75)):
        yield {'f': 'derive', 'kn': 'ident1-id0', 'iid': 'str', 'subj': 'ec256_1', 'iss': 'ed', 'start': st, 'dur': du, 'it': 0}
    # L: the issuer's key locator configured as an encoded Name (bytes / bytearray / memoryview) of exactly 32 and of 33 octets; and a
    #    second signer object of the same kind, same locator, other private key, used just before (a replaced key under the old name)
    for iss in ('ed', 'ecdsa', 'rsa', 'hmac'):
        for form in ('bytes', 'bytearray', 'memoryview'):
            for extra in (0, 1):
                yield {'f': 'derive', 'kn': 'ident1-id0', 'iid': 'str', 'subj': 'ec256_1', 'iss': iss, 'start': STARTS[3], 'dur': 3600, 'it': 0,
                       'loc_wire': form, 'loc_extra': extra}
        yield {'f': 'derive', 'kn': 'ident1-id0', 'iid': 'str', 'subj': 'ec256_1', 'iss': iss, 'start': STARTS[3], 'dur': 3600, 'it': 0, 'decoy_signer': True}
    # F: the key name given in the other documented forms (generator of components, tuple, URI text, encoded name)
    for form in ('gen', 'tuple', 'uri', 'wire'):
        yield {'f': 'derive', 'kn': 'ident1-id1', 'iid': 'str', 'subj': 'ec256_1', 'iss': 'ed', 'start': STARTS[3], 'dur': 3600, 'it': 0, 'form': form}
        for f in ('self', 'req'):
            yield {'f': f, 'kn': 'ident1-id1', 'subj': 'ec256_1', 'iss': 'ed', 'now': '2024-02-29T12:00:00+00:00', 'it': 0, 'form': form}
    # R: one signer object issuing two certificates, its (public) key_locator_name attribute reassigned in between
    for iss in ISSUERS:
        for subj in ('ec256_1', 'rsa2048_1'):
            yield {'f': 'derive', 'kn': 'ident1-id1', 'iid': 'str', 'subj': subj, 'iss': iss, 'start': STARTS[3], 'dur': 3600, 'it': 0, 'reuse': True}
    # D: self_sign / sign_req under an owned clock
    for now in ('2024-02-29T12:00:00+00:00', '1999-12-31T23:59:59+00:00', '2000-01-01T00:00:00+00:00', '2027-12-31T23:59:59+00:00'):
        for subj, iss in (('ec256_1', 'ecdsa'), ('rsa2048_1', 'rsa'), ('ed25519_1', 'ed')):
            for f in ('self', 'req'):
                for it in range(3):
                    yield {'f': f, 'kn': 'ident1-id1', 'subj': subj, 'iss': iss, 'now': now, 'it': it}


def run_case(case):
    if case.get('tz'):
        import os
        import time as _t
        old_tz = os.environ.get('TZ')
        os.environ['TZ'] = case['tz']
        _t.tzset()
        try:
            return run_case_inner(case)
        finally:
            if old_tz is None:
                os.environ.pop('TZ', None)
            else:
                os.environ['TZ'] = old_tz
            _t.tzset()
    return run_case_inner(case)


def given_form(case, comps):
    form = case.get('form')
    if form == 'gen':
        return (bytes(c) for c in list(comps))
    if form == 'tuple':
        return tuple(bytes(c) for c in comps)
    if form == 'uri':
        return enc.Name.to_str([bytes(c) for c in comps])
    if form == 'wire':
        return ts.tlv(7, b''.join(bytes(c) for c in comps))
    return list(comps)


def run_case_inner(case):
    names = dict(key_names())
    kn_given = None
    if case['kn'] == 'pad':
        kn = [ts.tlv(8, b'p' * case['pad']), KEY_COMP, ts.tlv(8, b'\x01')]
    elif case['kn'] == 'text':
        kn_given = ['caf\u00e9', 'a b', '\u65e5\u672c', KEY_COMP, ts.tlv(8, b'\x01')]
        kn = [ts.tlv(8, x.encode('utf-8')) if isinstance(x, str) else x for x in kn_given]
    else:
        kn = names[case['kn']]
    pub = pub_der(case['subj'])
    if case.get('keytail'):
        pub = pub[:-1] + bytes.fromhex(case['keytail'])
    if case.get('decoy_signer'):
        # a signer object of the same kind with the same locator and another private key exists (and has been used) before this one
        loc0 = '/issuer/' + case['iss'] + '-replaced/KEY/%01'
        other_key = {'rsa': lambda: Sha256WithRsaSigner(loc0, key_der('rsa2048_2')), 'ed': lambda: Ed25519Signer(loc0, key_der('ed25519_1')),
                     'ecdsa': lambda: Sha256WithEcdsaSigner(loc0, key_der('ec256_3')), 'hmac': lambda: HmacSha256Signer(loc0, b'another-hmac-key')}[case['iss']]()
        try:
            sv2.derive_cert(list(names['ident1-id1']), 'old', pub_der(case['subj']), other_key, dt.datetime(2020, 1, 1), 60)
        except Exception:  # noqa
            pass
    signer, loc = issuer_signer(case['iss'], '/issuer/' + case['iss'] + '-replaced/KEY/%01' if case.get('decoy_signer') else None)
    if case.get('loc_wire'):
        loc = [ts.tlv(8, b'ndn'), ts.tlv(8, b'alice123' + b'x' * case['loc_extra']), ts.tlv(8, b'KEY'), ts.tlv(8, b'\x01\x02\x03\x04\x05\x06\x07\x08')]
        lw = ts.tlv(7, b''.join(loc))
        assert len(lw) == 32 + case['loc_extra']
        signer.key_locator_name = {'bytes': lw, 'bytearray': bytearray(lw), 'memoryview': memoryview(lw)}[case['loc_wire']]
    if case.get('decoy_signer') == 'after':
        other_key = {'rsa': lambda: Sha256WithRsaSigner(loc, key_der('rsa2048_2')), 'ed': lambda: Ed25519Signer(loc, key_der('ed25519_1')),
                     'ecdsa': lambda: Sha256WithEcdsaSigner(loc, key_der('ec256_3')), 'hmac': lambda: HmacSha256Signer(loc, b'another-hmac-key')}[case['iss']]()
        try:
            sv2.derive_cert(list(names['ident1-id1']), 'old', pub, other_key, dt.datetime(2020, 1, 1), 60)
        except Exception:  # noqa
            pass
    if case.get('text'):
        loc = ['issu\u00e9r', 'k \u00e9', 'KEY', ts.tlv(8, b'\x01')]
        signer.key_locator_name = list(loc)
    if case.get('typedtext'):
        # the locator as a list of text elements, some of them typed: a version, a segment number, an explicit type number, an escape
        loc = ['issuer', 'KEY', '%01', 'self', 'v=7', 'seg=300', '32=abc', 'x%2Fy']
        signer.key_locator_name = list(loc)
    tag = case['f']
    version_ms = 1_700_000_123_456
    if case['f'] != 'derive':
        # one instant for every way of reading the clock (version component and validity period)
        version_ms = int(dt.datetime.fromisoformat(case['now']).timestamp() * 1000)

    class T:
        @staticmethod
        def time():
            return version_ms / 1000 + 0.0004
    env = owned_env(clock=T, seed=16)
    env.__enter__()
    try:
        with owned_random(('c16', case['it'], case.get('pad'), case['subj'])):
            if case.get('reuse'):
                signer.key_locator_name = '/earlier/use/KEY/%09'
                try:
                    sv2.derive_cert(list(names['ident1-id0']), 'first', pub, signer, dt.datetime(2020, 1, 1), 60)
                except Exception as e:  # noqa
                    return [(f'C16|derive|raises:{type(e).__name__}@{tb_where(e)}', f'{e!r}; first certificate of case {case}')], None
                signer.key_locator_name = loc
            if case.get('locgen'):
                # the signer was configured with its key locator as a one-shot iterator of components (a documented form of a name)
                # and has issued one certificate already: the next one names the same locator
                signer.key_locator_name = (c for c in list(enc.Name.normalize(loc)))
                try:
                    sv2.derive_cert(list(names['ident1-id0']), 'first', pub, signer, dt.datetime(2020, 1, 1), 60)
                except Exception as e:  # noqa
                    return [(f'C16|derive|raises:{type(e).__name__}@{tb_where(e)}', f'{e!r}; first certificate of case {case}')], None
            if case.get('form') == 'uri':
                # the same key name text has been used for another certificate before (a renewal, or a request after a self-signed one)
                try:
                    with fixed_now('2023-05-05T05:05:05+00:00'):
                        sv2.self_sign(given_form(case, kn_given or kn), pub, signer)
                except Exception as e:  # noqa
                    return [(f'C16|self|raises:{type(e).__name__}@{tb_where(e)}', f'{e!r}; earlier certificate of case {case}')], None
            if case['f'] == 'derive':
                ids = dict(ISSUER_IDS)
                iid = ids[case['iid']]
                issuer_comp = TEXT_ISSUER.get(iid, ts.tlv(8, iid.encode())) if isinstance(iid, str) else iid
                start = dt.datetime.fromisoformat(case['start'])
                if case.get('aware'):
                    start = start.replace(tzinfo=dt.timezone.utc)
                try:
                    name, wire = sv2.derive_cert(given_form(case, kn_given or kn), iid if isinstance(iid, str) else bytearray(iid), pub, signer, start, case['dur'])
                except Exception as e:  # noqa
                    return [(f'C16|derive|raises:{type(e).__name__}@{tb_where(e)}', f'{e!r}; case {case}')], None
                nb, na = start, start + dt.timedelta(seconds=case['dur'])
            else:
                with fixed_now(case['now']) as now:
                    try:
                        if case['f'] == 'self':
                            name, wire = sv2.self_sign(given_form(case, kn_given or kn), pub, signer)
                            issuer_comp = ts.tlv(8, b'self')
                            nb = dt.datetime(1970, 1, 1)
                            na = now.replace(year=now.year + 20)
                        else:
                            name, wire = sv2.sign_req(given_form(case, kn_given or kn), pub, signer)
                            issuer_comp = ts.tlv(8, b'cert-request')
                            nb, na = now, now + dt.timedelta(days=10)
                    except Exception as e:  # noqa
                        return [(f"C16|{case['f']}|raises:{type(e).__name__}@{tb_where(e)}", f'{e!r}; case {case}')], None
    finally:
        env.__exit__(None, None, None)
    viol = check_cert(wire, kn, issuer_comp, pub, case['iss'], loc, nb, na, version_ms, tag)
    if [bytes(c) for c in name] != ns.read_data(bytes(wire), cert=True)['name'] if not any('malformed' in v[0] for v in viol) else False:
        viol.append((f'C16|{tag}|returned-name', 'the name returned with the certificate differs from the name on the wire'))
    r = None
    try:
        r = ns.read_data(bytes(wire), cert=True)
    except ts.Malformed:
        pass
    info = {'len': len(wire), 'siglen': len(r['sig_value']) if r and r['sig_value'] else None}
    return [(s, w + f'; case {case}') for s, w in viol], info


def plan(tier, seed):
    n = sum(1 for _ in derive_cases(tier))
    units = [{'lo': lo, 'hi': min(n, lo + 150), 'tier': tier} for lo in range(0, n, 150)]
    return {
        'units': units,
        'rule': 'case = (function, key name, issuer id form, subject key, issuing signer, instants, nonce index); distinct by construction. '
                'Non-trivial = certificate longer than 252 bytes, ECDSA signature shorter than the reserved 72 bytes, or an instant within a '
                'week of a year boundary.',
        'bounds': {'cases': n, 'starts': STARTS, 'durations_s': DURATIONS, 'subjects': SUBJECTS, 'issuers': ISSUERS,
                   'issuer_ids': [i[0] for i in ISSUER_IDS], 'ecdsa_nonces_per_size': 8 if tier == 'quick' else 24},
        'assumptions': ['instants are naive-UTC or UTC-aware datetimes; other time zones are outside what the statement defines',
                        'self_sign on 29 February of a year whose 20th successor is not a leap year (2080) is not enumerated'],
    }


def unit(arg):
    acc = Acc()
    acc.state_hashes = None
    for case in itertools.islice(derive_cases(arg['tier']), arg['lo'], arg['hi']):
        viol, info = run_case(case)
        acc.evaluations += 1
        acc.state_count += 1
        acc.transitions += 3
        if info:
            if info['len'] > 252 or (case['iss'].startswith('ecdsa') and info['siglen'] != 72):
                acc.nontrivial += 1
            if case['iss'].startswith('ecdsa'):
                acc.notes[f"{case['iss']}-der-len={info['siglen']}"] += 1
            acc.outcome(f"{case['f']}|{case['iss']}|{case['subj']}|outerL={'1' if info['len'] < 255 else ('3' if info['len'] < 65540 else '5')}|sig={info['siglen']}")
        acc.observe([case, info, [v[0] for v in viol]])
        for sig, what in viol:
            acc.violation(sig, what, {'case': case})
        if acc.evaluations % 60 == 1:
            acc.sample({'case': case, 'info': info})
    return acc


def replay(case):
    viol, _ = run_case(case['case'])
    return [{'sig': s, 'what': w} for s, w in viol]
