"""
C17 - prefix registration speaks the forwarder management protocol correctly.

sched : N <= 3 concurrent register/unregister calls issued at the same clock reading on both front-ends against a
        simulated forwarder; per command one answer from a menu (status codes with/without body, garbage, wrong
        type, Nack, silence, validator-rejected); all a/t event sequences up to a length, <= d deviations.
        Oracle: one command per call, command name / ControlParameters / signature format checked by the
        reference readers, at most one command outstanding, strictly increasing timestamps, result True iff the
        answer was a well-formed status 200, never an exception.
routes: routes declared before connecting are registered exactly once per connection (main_loop run twice).
decode: ControlResponse with every subset of the 16 ControlParameters fields and boundary values built by the
        reference writer; parse_response must return what was encoded.
"""
from __future__ import annotations

import hashlib
import itertools

import ndn.encoding as enc
from ndn.app_support import nfd_mgmt
from ndn.security import DigestSha256Signer

from mc.core import Acc
from mc.vloop import VLoop, tb_where
from mc.explore import execute, explore
from mc.ndnenv import HFace, FRONTENDS, owned_env
from mc.ref import tlv_strict as ts
from mc.ref import ndn_strict as ns

PROPERTY = 'C17'

PREFIXES = ['/app/a', '/app/b/c', '/', '/' + 'x' * 253]      # index 2: the root prefix (empty name); index 3: a long component
ANS_FULL = ['200', '200-nobody', '400', '400-nobody', '403-nobody', '500', 'garbage', 'wrongtype', 'nack', 'silence', 'invalid',
            '201', '100-nobody', '300', '399-nobody', '000', 'sig-empty', 'sig-bad', 'sig-missing']
ANS_SHORT = ['200', '403-nobody', 'nack', 'silence']
ANS_TINY = ['200', 'silence', 'nack']


def control_response(code, text, body_prefix=None):
    v = ts.tlv(0x66, ts.uint(code)) + ts.tlv(0x67, text.encode())
    if body_prefix is not None:
        nm = ts.tlv(7, b''.join(bytes(c) for c in enc.Name.from_str(body_prefix)))
        v += ts.tlv(0x68, nm + ts.tlv(0x69, ts.uint(300)) + ts.tlv(0x6f, ts.uint(0)) + ts.tlv(0x6a, ts.uint(0))
                    + ts.tlv(0x6c, ts.uint(1)))
    return ts.tlv(0x65, v)


# (clock drift in us per reading, forwarder answers at once): with answers at once the next command is prepared within the
# same millisecond, so the millisecond boundary falls between any two consecutive readings for some phase
PHASE_GRID = [(50, True), (100, True), (150, True), (250, True), (150, False), (250, False), (300, False), (400, False), (500, False), (1000, False)]


class RegScenario:
    """calls: list of (verb, prefix index); answers: list of answer kinds (per command in send order)"""

    def __init__(self, loop, trace, fe_name, calls, answers, local=True, drift_us=0, phase_us=0, auto=False):
        self.loop, self.trace = loop, trace
        self.auto = auto        # the forwarder answers every command the moment it arrives
        self.local, self.drift_us, self.phase_us = local, drift_us, phase_us
        self.fe_name = fe_name
        self.fe = FRONTENDS[fe_name]
        self.calls, self.answers = calls, answers
        self.env = owned_env(loop)
        self.cmds = []          # commands seen by the forwarder: dict(wire, us, answered_us)
        self.results = {}
        self.tasks = {}

    def close(self):
        self.env.__exit__(None, None, None)

    def setup(self):
        self.env.__enter__()
        self.loop.drift_us = self.drift_us
        self.loop.read_offset_us = self.phase_us
        self.face = HFace(self.trace, local=bool(self.local))
        self.face.on_send = self._on_send
        self.app = self.fe.make_app(self.face)
        self.twin = None
        if self.local == 'twin':
            # a second application object of the same kind, created later, with a connection of its own that nobody answers on: the
            # commands of the first application are none of its business
            tface = HFace()
            tapp = self.fe.make_app(tface)
            self.twin = (tapp, tface, self.loop.create_task(tapp.main_loop()))
        if self.fe_name == 'legacy':
            async def dv(name, sig):
                # the data validator rejects answers of kind 'invalid'
                return not bytes(name[-1]).endswith(b'INVALID') if False else self._dv_ok
            self._dv_ok = True
            self._default_dv = self.app.data_validator        # what the library installs when the application says nothing
            self.app.data_validator = self._legacy_validator
        self.main = self.loop.create_task(self.app.main_loop())
        self.loop.drain()

    async def _legacy_validator(self, name, sig):
        if getattr(self, '_use_default_dv', False):
            # answers of the kinds sig-*: a status-200 response whose DigestSha256 signature is empty / wrong / without a value
            # element, judged by the validator the library installs by default
            return await self._default_dv(name, sig)
        return getattr(self, '_next_valid', True)

    def _on_send(self, wire):
        self.cmds.append({'wire': wire, 'us': self.loop.us, 'answered': None, 'fired': None})
        self.trace.append(('cmd', len(self.cmds) - 1, self.loop.us))
        if self.auto:
            self.answer_oldest()

    async def _call(self, i):
        verb, pi = self.calls[i]
        try:
            if self.fe_name == 'v2':
                if verb.startswith('register'):
                    r = await self.app.register(PREFIXES[pi])
                else:
                    r = await self.app.unregister(PREFIXES[pi])
            else:
                if verb == 'register':
                    r = await self.app.register(PREFIXES[pi], None)
                elif verb.startswith('register+'):
                    # the route's own Interest validator has nothing to do with the forwarder's answer to the command
                    verdict = verb.endswith('accept')

                    async def route_validator(name, sig):
                        return verdict
                    r = await self.app.register(PREFIXES[pi], lambda *a, **k: None, route_validator)
                else:
                    # with and without a callback entry for the prefix (a prefix registered with register(name, None) has none)
                    if (i + pi) % 2 == 0:
                        try:
                            self.app.set_interest_filter(PREFIXES[pi], lambda *a: None)
                        except ValueError:
                            pass
                    r = await self.app.unregister(PREFIXES[pi])
            self.results[i] = ('ret', r)
        except BaseException as e:  # noqa
            self.results[i] = ('raise', type(e).__name__ + '@' + tb_where(e))
        self.trace.append(('result', i, self.results[i], self.loop.us))

    def fire(self, ev):
        if ev[0] == 'r':
            i = int(ev[1:])
            self.tasks[i] = self.loop.create_task(self._call(i))
        elif ev == 'a':
            self.answer_oldest()

    def answer_oldest(self):
        for k, c in enumerate(self.cmds):
            if c['fired'] is None:
                c['fired'] = self.loop.us
                kind = self.answers[k] if k < len(self.answers) else '200'
                c['kind'] = kind
                if self.loop.us - c['us'] >= 1_000_000:
                    c['late'] = True
                self._answer(k, c, kind)
                return True
        return False

    def _answer(self, k, c, kind):
        try:
            r = ns.read_interest(c['wire'])
        except ts.Malformed:
            return
        name = [bytes(x) for x in r['name']]
        prefix = self._cmd_prefix(r)
        self._next_valid = kind != 'invalid'
        self._use_default_dv = kind.startswith('sig-')
        if kind.startswith('sig-'):
            good = bytes(enc.make_data(name, enc.MetaInfo(freshness_period=1000), control_response(200, 'OK', prefix), DigestSha256Signer()))
            top = ts.read_single(good)
            ch = top.children()
            sv = [c for c in ch if c.typ == 0x17][0]
            new = {'sig-empty': ts.tlv(0x17, b''), 'sig-bad': ts.tlv(0x17, bytes(32)), 'sig-missing': b''}[kind]
            self.face.deliver(ts.tlv(6, b''.join(c.wire if c is not sv else new for c in ch)), label=f'ans{k}')
            return
        if kind == 'silence':
            return
        if kind == 'nack':
            self.face.deliver(bytes(enc.make_network_nack(c['wire'], 150)), label=f'ans{k}')
            return
        if kind[:3].isdigit():
            code = int(kind[:3])
            body = None if kind.endswith('nobody') else prefix
            content = control_response(code, 'OK' if code == 200 else 'error', body)
        elif kind == 'invalid':
            content = control_response(200, 'OK', prefix)
        elif kind == 'garbage':
            content = b'\x65\x7f\x01\x02garbage'
        elif kind == 'wrongtype':
            content = ts.tlv(0x80, b'not-a-control-response')
        else:
            raise ValueError(kind)
        self.face.deliver(bytes(enc.make_data(name, enc.MetaInfo(freshness_period=1000), content, DigestSha256Signer())), label=f'ans{k}')

    @staticmethod
    def _cmd_prefix(r):
        try:
            cp = ts.read_single(ts.read_single(r['name'][4]).value)
            nm = [e for e in cp.children() if e.typ == 7][0]
            return '/' + '/'.join(bytes(c.value).decode() for c in nm.children())
        except Exception:  # noqa
            return None

    def finish(self):
        loop = self.loop
        # run to completion: keep answering outstanding commands, then let time pass
        for _ in range(40):
            loop.drain()
            if self.answer_oldest():
                self.trace.append(('auto-answer',))
                continue
            nxt = loop.next_timer_us()
            if nxt is None:
                break
            loop.advance_to_us(nxt)
        obs = {'results': {str(k): list(v) for k, v in sorted(self.results.items())},
               'undone': [i for i, t in self.tasks.items() if not t.done()],
               'cmds': [{'us': c['us'], 'fired': c['fired'], 'kind': c.get('kind'), 'late': c.get('late', False),
                         'wire': c['wire'].hex()} for c in self.cmds]}
        obs['failures'] = loop.task_failures(ignore=set(self.tasks.values()))
        if self.twin is not None:
            obs['twin_sent'] = len(self.twin[1].sent)
            self.twin[0].shutdown()
        self.app.shutdown()
        loop.settle()
        obs['failures'] += [f for f in loop.task_failures(ignore=set(self.tasks.values())) if f not in obs['failures']]
        obs['handler'] = list(loop.handler_reports)
        return obs


NFD_DOMAINS = {('Route', 'flags'): range(4), 'flags': range(8), 'face_scope': range(2), 'face_persistency': range(3), 'link_type': range(3),
               'face_event_kind': range(1, 5)}


def typed_field_cases():
    """every status-dataset / control-parameter field declared with an enumeration or flag type, with every value of its domain
    (enumerations: every member; flag sets: every combination of the declared bits)"""
    import enum
    from ndn.encoding import tlv_model as tm
    out = []
    for cname in sorted(vars(nfd_mgmt)):
        cls = getattr(nfd_mgmt, cname)
        if not (isinstance(cls, type) and issubclass(cls, tm.TlvModel) and cls is not tm.TlvModel and cls.__module__ == nfd_mgmt.__name__):
            continue
        for f in cls._encoded_fields:
            base = getattr(f, 'val_base_type', None)
            if isinstance(f, tm.UintField) and isinstance(base, type) and issubclass(base, enum.Enum):
                members = [m.value for m in base]
                if issubclass(base, enum.Flag):
                    bits = 0
                    for m in members:
                        bits |= m
                    values = [v for v in range(bits + 1) if v & ~bits == 0]
                else:
                    values = members
                # the NFD management protocol defines these domains whatever the declaration in the code says
                spec = NFD_DOMAINS.get((cname, f.name)) or NFD_DOMAINS.get(f.name)
                if spec is not None:
                    values = sorted(set(values) | set(spec))
                for v in values:
                    out.append((cname, f.name, f.type_num, base, v))
    return out


def run_typed(cname, fname, tnum, base, v):
    viol = []
    cls = getattr(nfd_mgmt, cname)
    wire = ts.tlv(tnum, ts.uint(v))
    tag = f'C17|typed|{cname}.{fname}'
    try:
        m = cls.parse(wire)
        got = getattr(m, fname)
        if got is None or int(got.value if hasattr(got, 'value') else got) != v:
            viol.append((f'{tag}|decoded-value', f'value {v} was encoded, {got!r} decoded'))
        back = bytes(m.encode())
        if back != wire:
            viol.append((f'{tag}|re-encode', f'value {v}: decode then encode gives {back.hex()} instead of {wire.hex()}'))
    except Exception as e:  # noqa
        viol.append((f'{tag}|decode-raises:{type(e).__name__}', f'value {v} ({wire.hex()}): {e!r}'))
        return viol
    for label, val in (('typed', None), ('int', v)):
        try:
            val = getattr(nfd_mgmt, base.__name__)(v) if label == 'typed' else v
            m2 = cls()
            setattr(m2, fname, val)
            w2 = bytes(m2.encode())
            if w2 != wire:
                viol.append((f'{tag}|encode-{label}', f'value {val!r} encodes to {w2.hex()} instead of {wire.hex()}'))
        except Exception as e:  # noqa
            viol.append((f'{tag}|encode-{label}-raises:{type(e).__name__}', f'value {v}: {e!r}'))
    return viol


def check_command(fe_name, wire, verb_prefix_pool, local=True):
    """returns (violations, (verb, prefix), timestamp)"""
    v = []
    try:
        r = ns.read_interest(wire, minimal=True)
    except ts.Malformed as e:
        return [(f'C17|{fe_name}|command-malformed', f'{e}')], None, None
    name = r['name']
    want_head = [ts.tlv(8, x) for x in (b'localhost' if local else b'localhop', b'nfd', b'rib')]
    if name[:3] != want_head or len(name) < 5:
        return [(f"C17|{fe_name}|command-name|{'local' if local else 'non-local'}-face",
                 f'command name starts {[bytes(ts.read_single(c).value) for c in name[:3]]} on a {"local" if local else "non-local"} face')], None, None
    verb = ts.read_single(name[3]).value.decode()
    prefix = RegScenario._cmd_prefix(r)
    # ControlParameters must contain exactly the Name
    try:
        cp = ts.read_single(ts.read_single(name[4], minimal=True).value, minimal=True)
        kids = cp.children(minimal=True)
        if cp.typ != 0x68 or [k.typ for k in kids] != [7]:
            v.append((f'C17|{fe_name}|control-parameters', f'ControlParameters element {cp.typ:#x} with fields {[hex(k.typ) for k in kids]}'))
    except ts.Malformed as e:
        v.append((f'C17|{fe_name}|control-parameters', f'{e}'))
    stamp = None
    if fe_name == 'v2':
        if len(name) != 6 or ts.read_single(name[5]).typ != 2:
            v.append((f'C17|v2|command-format', f'expected 5 components + ParametersSha256Digest, got {len(name)} components'))
        if r['app'] is None or r['sig_info'] is None or r['sig_value'] is None:
            v.append(('C17|v2|command-format', 'signed Interest fields missing'))
        else:
            if r['digest_value'] != hashlib.sha256(r['digest_cover']).digest():
                v.append(('C17|v2|params-digest', 'parameters digest of the command Interest is wrong'))
            si = r['sig_info']
            if si['type'] != 0 or si['time'] is None or si['nonce'] is None:
                v.append(('C17|v2|signature-info', f"SignatureInfo type={si['type']} time={si['time']} nonce={si['nonce']}"))
            if r['sig_value'] != hashlib.sha256(r['signed']).digest():
                v.append(('C17|v2|signature-value', 'DigestSha256 signature value does not cover the signed portion'))
            stamp = si['time']
    else:
        if len(name) != 9:
            v.append(('C17|legacy|command-format', f'expected 9 name components, got {len(name)}'))
        else:
            tsv = ts.read_single(name[5]).value
            nonce = ts.read_single(name[6]).value
            if len(tsv) != 8 or len(nonce) != 8:
                v.append(('C17|legacy|command-format', 'timestamp / nonce components are not 8 bytes'))
            stamp = int.from_bytes(tsv, 'big')
            try:
                si = ts.read_single(ts.read_single(name[7]).value)
                sv = ts.read_single(ts.read_single(name[8]).value)
                if si.typ != 0x16 or sv.typ != 0x17:
                    v.append(('C17|legacy|command-format', 'SignatureInfo / SignatureValue components have wrong types'))
                elif sv.value != hashlib.sha256(b''.join(name[:8])).digest():
                    v.append(('C17|legacy|signature-value', 'command signature does not cover the preceding components'))
            except ts.Malformed as e:
                v.append(('C17|legacy|command-format', f'{e}'))
    return v, (verb, prefix), stamp


def judge(fe_name, calls, answers, run, local=True, drift=0):
    viol = []
    # with a drifting wall clock the library's own deadline arithmetic shifts by a few readings: allow 20 ms of slack
    LIFE = 1_000_000 - (20_000 if drift else 0)
    obs = run.obs
    cmds = obs['cmds']
    if obs['undone']:
        viol.append((f'C17|{fe_name}|call-never-returns', f'calls {obs["undone"]} still pending at the end'))
    if len(cmds) != len(calls):
        viol.append((f'C17|{fe_name}|command-count', f'{len(cmds)} command Interests for {len(calls)} calls'))
    seen = []
    stamps = []
    for k, c in enumerate(cmds):
        v, vp, stamp = check_command(fe_name, bytes.fromhex(c['wire']), None, local)
        viol.extend(v)
        seen.append(vp)
        stamps.append(stamp)
    calls = [(verb.split('+')[0], pi) for verb, pi in calls]      # 'register+reject': register with a route validator (legacy)
    want = sorted((verb, PREFIXES[pi]) for verb, pi in calls)
    if any(x is not None and x[1] is None for x in seen):
        viol.append((f'C17|{fe_name}|command-without-name', f'a command carries no Name in its ControlParameters: {seen} for calls {want}'))
    elif sorted((x for x in seen if x), key=repr) != sorted(want, key=repr) and len(cmds) == len(calls):
        viol.append((f'C17|{fe_name}|command-target', f'commands {seen} for calls {want}'))
    for a, b in zip(stamps, stamps[1:]):
        if a is not None and b is not None and not b > a:
            viol.append((f'C17|{fe_name}|timestamps-not-increasing', f'command timestamps in send order: {stamps}'))
            break
    # one outstanding command at a time: when command k is sent, command k-1 was answered (fired) or is older than 1 s
    for k in range(1, len(cmds)):
        prev = cmds[k - 1]
        fired_before = prev['fired'] is not None and prev['fired'] <= cmds[k]['us'] and prev['kind'] != 'silence'
        if not fired_before and cmds[k]['us'] - prev['us'] < LIFE:
            viol.append((f'C17|{fe_name}|two-commands-outstanding', f'command {k} sent at {cmds[k]["us"]}us while command {k-1} '
                                                                     f'(sent {prev["us"]}us) was unanswered'))
            break
    # results: map each call to the answer its command got
    by_target = {}
    rx_us = {e[1]: e[2] for e in run.trace if e[0] == 'rx'}
    for k, c in enumerate(cmds):
        # the answer counts as late when the library only got to process it at / after the command's deadline
        if f'ans{k}' in rx_us and rx_us[f'ans{k}'] - c['us'] >= LIFE:
            c['late'] = True
        # same-instant rule: the deadline tick fired before the callbacks started by the answer had drained
        for ix, e in enumerate(run.trace):
            if e[0] == 'rx' and e[1] == f'ans{k}':
                for e2 in run.trace[ix + 1:]:
                    if e2[0] == 'quiescent':
                        break
                    if e2[0] == 'fire' and e2[1] == 'tick' and e2[2] - c['us'] >= LIFE:
                        c['late'] = True
        by_target.setdefault(seen[k], []).append(c)
    for i, (verb, pi) in enumerate(calls):
        res = obs['results'].get(str(i))
        if res is None:
            continue
        lst = by_target.get((verb, PREFIXES[pi]), [])
        mine = lst.pop(0) if lst else None
        kind = mine['kind'] if mine else None
        if res[0] == 'raise':
            viol.append((f'C17|{fe_name}|{verb}-raises|answer={kind}|{res[1]}', f'{verb} {PREFIXES[pi]} raised {res[1]} on answer {kind}'))
            continue
        if kind is None or kind == '200-nobody':
            continue
        ok = kind == '200'
        if mine.get('late'):
            continue        # answered at / after the command's own lifetime: either result
        if bool(res[1]) != ok or not isinstance(res[1], bool):
            viol.append((f'C17|{fe_name}|{verb}-result|answer={kind}|returned={res[1]!r}',
                         f'{verb} {PREFIXES[pi]} returned {res[1]!r} on forwarder answer {kind}'))
    if obs.get('twin_sent'):
        viol.append((f'C17|{fe_name}|command-on-another-applications-connection', f"{obs['twin_sent']} packet(s) left through the connection of a second "
                                                                                f'application object that issued no command'))
    for f in obs['failures']:
        viol.append((f"C17|{fe_name}|task-error|{f['exception']}@{f['where']}", str(f)))
    for h in obs['handler']:
        viol.append((f"C17|{fe_name}|loop-handler|{h.get('exception')}@{h.get('where')}", str(h)))
    return viol


def sched_cases(tier):
    """(fe, calls, answers, scripts)"""
    out = []
    for fe in ('v2', 'legacy'):
        menu1 = [a for a in ANS_FULL if (a != 'invalid' and not a.startswith('sig-')) or fe == 'legacy']
        for verb in ('register', 'unregister'):
            for a in menu1:
                out.append((fe, [(verb, 0)], [a]))
        for mix in ([('register', 0), ('register', 1)], [('register', 0), ('unregister', 1)],
                    [('unregister', 0), ('unregister', 1)], [('register', 0), ('register', 0)],
                    [('register', 0), ('unregister', 0)]):
            for a in itertools.product(ANS_SHORT, repeat=2):
                out.append((fe, mix, list(a)))
        for mix in ([('register', 0), ('register', 1), ('register', 0)], [('register', 0), ('unregister', 1), ('register', 1)]):
            for a in itertools.product(ANS_TINY, repeat=3):
                out.append((fe, mix, list(a)))
    return out


def extra_cases():
    """(fe, calls, answers, local, drift_us): non-local face; wall clock that advances with every reading"""
    out = []
    for fe in ('v2', 'legacy'):
        for mix in ([('register', 0)], [('unregister', 0)], [('register', 0), ('unregister', 1)]):
            out.append((fe, mix, ['200'] * len(mix), False, 0))
        # the root prefix and a prefix with a long component
        for pi in (2, 3):
            for mix in ([('register', pi)], [('unregister', pi)], [('register', pi), ('register', 0)]):
                out.append((fe, mix, ['200'] * len(mix), True, 0))
        if fe == 'legacy':
            for ans in ('200', 'invalid', '403-nobody'):
                for rv in ('register+reject', 'register+accept'):
                    out.append((fe, [(rv, 0)], [ans], True, 0))
                    out.append((fe, [(rv, 0), ('unregister', 1)], [ans, '200'], True, 0))
        for drift in (300, 500, 1000):
            for mix in ([('register', 0), ('register', 1)], [('register', 0), ('unregister', 1)], [('register', 0), ('register', 1), ('unregister', 0)]):
                out.append((fe, mix, ['200'] * len(mix), True, drift))
        # next to a second application object of the same kind (created after this one)
        for mix in ([('register', 0)], [('unregister', 0)], [('register', 0), ('unregister', 1)]):
            for ans in (['200'] * len(mix), ['403-nobody'] * len(mix)):
                out.append((fe, mix, ans, 'twin', 0))
    return out


def scripts_for(n, tier):
    L = {1: 3, 2: 4, 3: 4}[n] + (1 if tier == 'thorough' else 0)
    head = tuple(f'r{i}' for i in range(n))
    out = []
    for k in range(L + 1):
        for tail in itertools.product('at', repeat=k):
            out.append(head + tail)
    return out


# -- routes ---------------------------------------------------------------------------------------------------
def run_routes(fe_name):
    viol = []
    loop = VLoop()
    with loop, owned_env(loop):
        face = HFace()
        cmds = []

        def on_send(wire):
            cmds.append(wire)
            r = ns.read_interest(wire)
            prefix = RegScenario._cmd_prefix(r)
            face.deliver(bytes(enc.make_data([bytes(x) for x in r['name']], enc.MetaInfo(), control_response(200, 'OK', prefix),
                                             DigestSha256Signer())))
        face.on_send = on_send
        app = FRONTENDS[fe_name].make_app(face)
        if fe_name == 'v2':
            app.route('/r/one')(lambda n, ap, reply, ctx: None)
            app.route('/r/two')(lambda n, ap, reply, ctx: None)
        else:
            app.route('/r/one')(lambda n, p, ap: None)
            app.route('/r/two')(lambda n, p, ap: None)
        per_conn = []
        declared = ['/r/one', '/r/two']
        for conn in range(3):
            before = len(cmds)
            main = loop.create_task(app.main_loop())
            loop.settle()
            if conn == 0:
                # a route declared while connected is registered at once and belongs to the routes of later connections too
                if fe_name == 'v2':
                    app.route('/r/three')(lambda n, ap, reply, ctx: None)
                else:
                    app.route('/r/three')(lambda n, p, ap: None)
                declared.append('/r/three')
                loop.settle()
            targets = []
            for w in cmds[before:]:
                v, vp, _ = check_command(fe_name, w, None)
                viol.extend(v)
                targets.append(vp)
            per_conn.append(targets)
            if sorted(t for t in targets if t) != sorted(('register', d) for d in declared):
                viol.append((f'C17|{fe_name}|routes|connection-{conn}', f'connection {conn}: register commands {targets}, declared routes {declared}'))
            app.shutdown()
            loop.settle()
            if not main.done() or (main.exception() if not main.cancelled() else None):
                viol.append((f'C17|{fe_name}|routes|main-loop', 'main_loop did not end cleanly'))
        for f in loop.task_failures():
            viol.append((f"C17|{fe_name}|routes|task-error|{f['exception']}@{f['where']}", str(f)))
    return viol, per_conn


def run_two_loops(fe_name):
    """the same application object run twice, each time on a new event loop (run_forever twice): concurrent commands in the
    second run work as in the first; a refused duplicate route declaration does not add a second registration"""
    viol = []
    face = HFace()
    cmds = []

    def on_send(wire):
        cmds.append(wire)
        r = ns.read_interest(wire)
        prefix = RegScenario._cmd_prefix(r)
        face.deliver(bytes(enc.make_data([bytes(x) for x in r['name']], enc.MetaInfo(), control_response(200, 'OK', prefix),
                                         DigestSha256Signer())))
    face.on_send = on_send
    app = None
    for run in (0, 1):
        loop = VLoop()
        with loop, owned_env(loop, seed=run):
            if app is None:
                app = FRONTENDS[fe_name].make_app(face)
                h = (lambda n, ap, reply, ctx: None) if fe_name == 'v2' else (lambda n, p, ap: None)
                app.route('/r/one')(h)
                if fe_name == 'v2':
                    try:
                        app.route('/r/one')(h)
                        viol.append((f'C17|{fe_name}|two-loops|duplicate-route-accepted', 'a second route on /r/one was accepted'))
                    except ValueError:
                        pass
            before = len(cmds)
            main = loop.create_task(app.main_loop())
            loop.settle()
            results = {}

            async def call(i, verb, prefix):
                try:
                    if verb == 'register':
                        results[i] = await (app.register(prefix) if fe_name == 'v2' else app.register(prefix, None))
                    else:
                        results[i] = await app.unregister(prefix)
                except BaseException as e:  # noqa
                    results[i] = f'raises:{type(e).__name__}@{tb_where(e)}'
            tasks = [loop.create_task(call(i, v, pfx)) for i, (v, pfx) in enumerate((('register', '/x/a'), ('register', '/x/b'), ('unregister', '/x/a')))]
            loop.settle()
            targets = []
            for w in cmds[before:]:
                v, vp, _ = check_command(fe_name, w, None)
                viol.extend(v)
                targets.append(vp)
            want = [('register', '/r/one'), ('register', '/x/a'), ('register', '/x/b'), ('unregister', '/x/a')]
            if sorted((t for t in targets if t), key=repr) != sorted(want, key=repr):
                viol.append((f'C17|{fe_name}|two-loops|commands-run-{run}', f'run {run}: commands {targets}, expected {want}'))
            if any(r is not True for r in results.values()) or len(results) != 3:
                viol.append((f'C17|{fe_name}|two-loops|results-run-{run}', f'run {run}: results {results}'))
            app.shutdown()
            loop.settle()
            for f in loop.task_failures(ignore=set(tasks)):
                viol.append((f"C17|{fe_name}|two-loops|task-error|{f['exception']}@{f['where']}", str(f)))
    return viol


# -- response decoding ------------------------------------------------------------------------------------------
CP_FIELDS = [('name', 7, 'name'), ('face_id', 0x69, 'uint'), ('uri', 0x72, 'text'), ('local_uri', 0x81, 'text'),
             ('origin', 0x6f, 'uint'), ('cost', 0x6a, 'uint'), ('capacity', 0x83, 'uint'), ('count', 0x84, 'uint'),
             ('base_congestion_mark_interval', 0x87, 'uint'), ('default_congestion_threshold', 0x88, 'uint'),
             ('mtu', 0x89, 'uint'), ('flags', 0x6c, 'uint'), ('mask', 0x70, 'uint'), ('strategy', 0x6b, 'strategy'),
             ('expiration_period', 0x6d, 'uint'), ('face_persistency', 0x85, 'enum')]
UVALS = [0, 1, 255, 256, 65535, 65536, 2 ** 32 - 1, 2 ** 32, 2 ** 64 - 1]
TVALS = ['', 'udp4://1.2.3.4:6363', 'café-日本', 'x' * 253]


def run_decode(mask, rot):
    viol = []
    body = b''
    exp = {}
    for k, (fname, t, kind) in enumerate(CP_FIELDS):
        if not mask >> k & 1:
            exp[fname] = None
            continue
        if kind == 'uint':
            val = UVALS[(rot + k) % len(UVALS)]
            body += ts.tlv(t, ts.uint(val))
            exp[fname] = val
        elif kind == 'enum':
            val = (rot + k) % 3
            body += ts.tlv(t, ts.uint(val))
            exp[fname] = val
        elif kind == 'text':
            val = TVALS[(rot + k) % len(TVALS)]
            body += ts.tlv(t, val.encode('utf-8'))
            exp[fname] = val
        elif kind == 'name':
            comps = [ts.tlv(8, b'p'), ts.tlv(8, b'')][: 1 + rot % 2]
            body += ts.tlv(7, b''.join(comps))
            exp[fname] = comps
        else:
            comps = [ts.tlv(8, b'localhost'), ts.tlv(8, b'nfd'), ts.tlv(8, b'strategy'), ts.tlv(8, b'best-route')]
            body += ts.tlv(t, ts.tlv(7, b''.join(comps)))
            exp[fname] = comps
    code = [200, 0, 404, 65536][rot % 4]
    text = TVALS[rot % len(TVALS)]
    wire = ts.tlv(0x65, ts.tlv(0x66, ts.uint(code)) + ts.tlv(0x67, text.encode('utf-8')) + ts.tlv(0x68, body))
    try:
        ret = nfd_mgmt.parse_response(wire)
    except Exception as e:  # noqa
        return [(f'C17|decode|raises:{type(e).__name__}@{tb_where(e)}', f'parse_response raised {e!r} for field mask {mask:#x}')]
    if ret.get('status_code') != code or ret.get('status_text') != text:
        viol.append(('C17|decode|status', f"status {ret.get('status_code')!r}/{ret.get('status_text')!r} != {code}/{text!r}"))
    for fname, t, kind in CP_FIELDS:
        got = ret.get(fname)
        want = exp[fname]
        if kind in ('name',) and got is not None:
            got = [bytes(c) for c in got]
        if kind == 'strategy' and got is not None:
            got = [bytes(c) for c in got.name]
        if kind == 'enum' and got is not None:
            got = got.value if hasattr(got, 'value') else got
        if got != want:
            viol.append((f'C17|decode|field:{fname}', f'{fname}: encoded {want!r}, decoded {got!r} (mask {mask:#x})'))
    if not viol:
        # the next response, without a body, reports nothing of this one; and this result is not changed by decoding another
        snapshot = {k: (bytes(b''.join(bytes(c) for c in v)) if k == 'name' and v is not None else repr(v)) for k, v in ret.items()}
        try:
            nxt = nfd_mgmt.parse_response(ts.tlv(0x65, ts.tlv(0x66, ts.uint(403)) + ts.tlv(0x67, b'no')))
        except Exception as e:  # noqa
            return [(f'C17|decode|raises:{type(e).__name__}@{tb_where(e)}', f'parse_response raised {e!r} for a body-less response after mask {mask:#x}')]
        stale = [f for f, _t, _k in CP_FIELDS if nxt.get(f) is not None]
        if nxt.get('status_code') != 403 or stale:
            viol.append(('C17|decode|second-response-carries-first', f'a body-less 403 decoded after the response with mask {mask:#x} reports '
                                                                     f'status {nxt.get("status_code")} and fields {stale}'))
        after = {k: (bytes(b''.join(bytes(c) for c in v)) if k == 'name' and v is not None else repr(v)) for k, v in ret.items()}
        if after != snapshot:
            viol.append(('C17|decode|earlier-result-changed', f'the result for mask {mask:#x} changed when the next response was decoded'))
    return viol


# -- plan / unit / replay -----------------------------------------------------------------------------------------
IP_HOSTS = [('127.0.0.1', True), ('127.0.0.2', True), ('127.0.1.1', True), ('127.255.255.254', True), ('::1', True),
            ('10.0.0.1', False), ('128.0.0.1', False), ('126.255.255.255', False), ('192.168.127.1', False), ('1.127.0.1', False),
            ('::2', False), ('fe80::1', False), ('2001:db8::127', False)]


def run_ipfaces():
    """the command scope follows the face: a TCP / UDP face to any loopback address is local (commands under /localhost), any other is not
    (/localhop) - both command formats"""
    import ipaddress
    from ndn.transport.stream_face import TcpFace
    from ndn.transport.udp_face import UdpFace
    from ndn.app_support import nfd_mgmt
    viol = []
    for host, want in IP_HOSTS:
        assert ipaddress.ip_address(host).is_loopback == want
        for cls in (TcpFace, UdpFace):
            face = cls(host, 6363)
            try:
                got = face.isLocalFace()
                name = nfd_mgmt.make_command_v2('rib', 'register', face, name='/p')
                scope = bytes(name[0])[2:].decode()
                old = nfd_mgmt.make_command('rib', 'register', face, name='/p') if hasattr(nfd_mgmt, 'make_command') else None
                scope_old = bytes(enc.Name.normalize(old)[0])[2:].decode() if old is not None else None
            except Exception as e:  # noqa
                viol.append((f'C17|ipface|raises:{type(e).__name__}', f'{cls.__name__}({host!r}): {e!r}'))
                continue
            exp_scope = 'localhost' if want else 'localhop'
            if bool(got) != want:
                viol.append((f'C17|ipface|isLocalFace|expected={want}', f'{cls.__name__}({host!r}).isLocalFace() = {got}'))
            if scope != exp_scope or (scope_old is not None and scope_old != exp_scope):
                viol.append((f'C17|ipface|command-scope|expected={exp_scope}', f'{cls.__name__}({host!r}): commands under /{scope} (signed-Interest format) '
                                                                               f'and /{scope_old} (command-Interest format)'))
    return viol


def plan(tier, seed):
    d = 1 if tier == 'quick' else 2
    units = []
    cases = sched_cases(tier)
    for k in range(0, len(cases), 6):
        units.append({'kind': 'sched', 'lo': k, 'hi': min(len(cases), k + 6), 'tier': tier, 'd': d})
    n_extra = len(extra_cases())
    for lo in range(0, n_extra, 3):
        units.append({'kind': 'extra', 'd': d, 'tier': tier, 'lo': lo, 'hi': min(n_extra, lo + 3)})
    units.append({'kind': 'phase'})
    units.append({'kind': 'typed'})
    for fe in ('v2', 'legacy'):
        units.append({'kind': 'routes', 'fe': fe})
        units.append({'kind': 'two-loops', 'fe': fe})
    units.append({'kind': 'ipfaces'})
    for lo in range(0, 65536, 4096):
        units.append({'kind': 'decode', 'lo': lo, 'hi': lo + 4096})
    return {
        'units': units,
        'rule': 'sched: execution = (front-end, calls, forwarder answers, a/t script, deviation placement); decode: case = '
                '(subset of the 16 ControlParameters fields, value rotation). Non-trivial = >=2 concurrent calls or an answer '
                'other than status 200.',
        'bounds': {'concurrent_calls': 3, 'answer_menus': {'1': ANS_FULL, '2': ANS_SHORT, '3': ANS_TINY}, 'deviation_bound': d,
                   'script_tail_len': {'1': 3, '2': 4, '3': 4}, 'decode_subsets': 65536},
        'assumptions': ['a status-200 answer without a body is outside the claims (no exception is still required)',
                        'an answer delivered after the command lifetime (1 s) may yield either result'],
    }


def unit(arg):
    acc = Acc()
    if arg['kind'] == 'sched':
        for fe, calls, answers in sched_cases(arg['tier'])[arg['lo']:arg['hi']]:
            factory = lambda loop, trace: RegScenario(loop, trace, fe, calls, answers)  # noqa
            for script in scripts_for(len(calls), arg['tier']):
                def on_run(run, script=script):
                    acc.evaluations += 1
                    acc.transitions += run.steps
                    res = run.obs['results']
                    acc.observe([fe, calls, answers, list(script), run.choices, res])
                    acc.outcome(f"{fe}|n={len(calls)}|" + ','.join(f"{v[0]}:{v[1]}" for v in res.values())[:80])
                    acc.state((fe, tuple(map(tuple, calls)), tuple(answers), tuple(script), tuple(run.choices[:6]), repr(res)))
                    if len(calls) > 1 or answers[0] != '200':
                        acc.nontrivial += 1
                    for sig, what in judge(fe, calls, answers, run):
                        acc.violation(sig, what, {'kind': 'sched', 'fe': fe, 'calls': [list(c) for c in calls], 'answers': answers,
                                                  'script': list(script), 'choices': list(run.choices)})
                    if acc.evaluations % 700 == 1:
                        acc.sample({'fe': fe, 'calls': calls, 'answers': answers, 'script': list(script), 'results': res})
                explore(factory, script, arg['d'], on_run)
        acc.max_dev_completed = arg['d']
    elif arg['kind'] == 'extra':
        for fe, calls, answers, local, drift in extra_cases()[arg.get('lo', 0):arg.get('hi', None)]:
            factory = lambda loop, trace: RegScenario(loop, trace, fe, calls, answers, local, drift)  # noqa
            for script in scripts_for(len(calls), arg['tier']):
                def on_run(run, script=script):
                    acc.evaluations += 1
                    acc.transitions += run.steps
                    acc.nontrivial += 1
                    res = run.obs['results']
                    acc.observe([fe, calls, local, drift, list(script), run.choices, res])
                    acc.outcome(f"{fe}|{'local' if local else 'nonlocal'}|drift={drift}|" + ','.join(f"{v[0]}:{v[1]}" for v in res.values())[:60])
                    acc.state((fe, tuple(map(tuple, calls)), local, drift, tuple(script), tuple(run.choices[:6])))
                    for sig, what in judge(fe, calls, answers, run, local, drift):
                        acc.violation(sig, what + f' (face local={local}, clock drift {drift}us per reading)',
                                      {'kind': 'extra', 'fe': fe, 'calls': [list(c) for c in calls], 'answers': answers, 'local': local,
                                       'drift': drift, 'script': list(script), 'choices': list(run.choices)})
                explore(factory, script, arg['d'], on_run)
        acc.sample({'extra_cases': [[c[0], c[1], c[3], c[4]] for c in extra_cases()][:6]})
        acc.max_dev_completed = arg['d']
    elif arg['kind'] == 'phase':
        # wall clock advancing with every reading, all phases relative to the millisecond boundary; answers come at once
        for fe in ('v2', 'legacy'):
            for mix in ([('register', 0), ('register', 1)], [('register', 0), ('unregister', 1)], [('unregister', 0), ('register', 1), ('register', 0)]):
                for (drift, auto), first in itertools.product(PHASE_GRID, ('200', 'nack')):
                    if first == 'nack' and (not auto or len(mix) != 2):
                        continue
                    for phase in range(0, 1000, 50):
                        # (also with the first command refused by a Nack: what it taught about the clock still counts)
                        calls, answers = mix, [first] + ['200'] * (len(mix) - 1)
                        factory = lambda loop, trace: RegScenario(loop, trace, fe, calls, answers, True, drift, phase, auto)  # noqa
                        script = tuple(f'r{i}' for i in range(len(mix))) + (() if auto else ('a',) * len(mix))
                        run = execute(factory, script, ())
                        acc.evaluations += 1
                        acc.transitions += run.steps
                        acc.nontrivial += 1
                        acc.state((fe, tuple(map(tuple, mix)), drift, phase, auto))
                        acc.outcome(f'phase|{fe}|drift={drift}|auto={auto}')
                        acc.observe([fe, mix, drift, phase, auto, run.obs['results']])
                        for sig, what in judge(fe, calls, answers, run, True, drift):
                            acc.violation(sig + '|drifting-clock', what + f' (clock drift {drift}us per reading, phase {phase}us)',
                                          {'kind': 'phase', 'fe': fe, 'calls': [list(c) for c in calls], 'drift': drift, 'phase': phase, 'auto': auto,
                                           'answers': list(answers)})
        acc.sample({'phase_sweep': {'drift_us_per_reading,answer_at_once': [list(g) for g in PHASE_GRID], 'phase_us': 'every 50 in 0..950'}})
    elif arg['kind'] == 'typed':
        acc.state_hashes = None
        n_fields = 0
        for cname, fname, tnum, base, v in typed_field_cases():
            viol = run_typed(cname, fname, tnum, base, v)
            acc.evaluations += 1
            acc.state_count += 1
            acc.transitions += 2
            acc.nontrivial += 1
            acc.outcome(f"typed|{cname}.{fname}|{'ok' if not viol else 'viol'}")
            acc.observe([cname, fname, v, [x[0] for x in viol]])
            for sig, what in viol:
                acc.violation(sig, what, {'kind': 'typed', 'cls': cname, 'field': fname, 'value': v})
        acc.sample({'typed_fields': sorted({f'{c}.{f}' for c, f, _, _, _ in typed_field_cases()})})
    elif arg['kind'] == 'ipfaces':
        v = run_ipfaces()
        acc.evaluations += 2 * len(IP_HOSTS)
        acc.nontrivial += 2 * len(IP_HOSTS)
        acc.transitions += 6 * len(IP_HOSTS)
        acc.state('ipfaces')
        acc.outcome(f"ipfaces|{'ok' if not v else 'viol'}")
        acc.observe(['ipfaces', [x[0] for x in v]])
        for sig, what in v:
            acc.violation(sig, what, {'kind': 'ipfaces'})
        acc.sample({'hosts': [h for h, _ in IP_HOSTS]})
    elif arg['kind'] == 'two-loops':
        v = run_two_loops(arg['fe'])
        acc.evaluations += 1
        acc.nontrivial += 1
        acc.transitions += 8
        acc.state(('two-loops', arg['fe']))
        acc.outcome(f"two-loops|{arg['fe']}|{'ok' if not v else 'viol'}")
        acc.observe([arg['fe'], [x[0] for x in v]])
        for sig, what in v:
            acc.violation(sig, what, {'kind': 'two-loops', 'fe': arg['fe']})
    elif arg['kind'] == 'routes':
        v, per = run_routes(arg['fe'])
        acc.evaluations += 1
        acc.nontrivial += 1
        acc.state(('routes', arg['fe'], repr(per)))
        acc.transitions += 4
        acc.outcome(f"routes|{arg['fe']}|{per}"[:120])
        acc.observe([arg['fe'], per, [x[0] for x in v]])
        acc.sample({'routes': arg['fe'], 'register_commands_per_connection': per})
        for sig, what in v:
            acc.violation(sig, what, {'kind': 'routes', 'fe': arg['fe']})
    else:
        acc.state_hashes = None
        for mask in range(arg['lo'], arg['hi']):
            v = run_decode(mask, mask % 9)
            acc.evaluations += 1
            acc.state_count += 1
            acc.transitions += 1
            if bin(mask).count('1') not in (0, 16):
                acc.nontrivial += 1
            acc.outcome(f"decode|nfields={bin(mask).count('1')}|{'ok' if not v else 'viol'}")
            acc.observe([mask, [x[0] for x in v]])
            for sig, what in v:
                acc.violation(sig, what, {'kind': 'decode', 'mask': mask, 'rot': mask % 9})
        acc.sample({'decode_mask': hex(mask), 'fields': [f[0] for k, f in enumerate(CP_FIELDS) if mask >> k & 1]})
    return acc


def replay(case):
    if case['kind'] == 'ipfaces':
        return [{'sig': s, 'what': w} for s, w in run_ipfaces()]
    if case['kind'] == 'two-loops':
        return [{'sig': s, 'what': w} for s, w in run_two_loops(case['fe'])]
    if case['kind'] == 'typed':
        for cname, fname, tnum, base, v in typed_field_cases():
            if (cname, fname, v) == (case['cls'], case['field'], case['value']):
                return [{'sig': s, 'what': w} for s, w in run_typed(cname, fname, tnum, base, v)]
        return []
    if case['kind'] == 'phase':
        calls = [tuple(c) for c in case['calls']]
        answers = case.get('answers') or ['200'] * len(calls)
        auto = case.get('auto', False)
        factory = lambda loop, trace: RegScenario(loop, trace, case['fe'], calls, answers, True, case['drift'], case['phase'], auto)  # noqa
        script = tuple(f'r{i}' for i in range(len(calls))) + (() if auto else ('a',) * len(calls))
        run = execute(factory, script, ())
        return [{'sig': s + '|drifting-clock', 'what': w} for s, w in judge(case['fe'], calls, answers, run, True, case['drift'])]
    if case['kind'] == 'extra':
        calls = [tuple(c) for c in case['calls']]
        factory = lambda loop, trace: RegScenario(loop, trace, case['fe'], calls, case['answers'], case['local'], case['drift'])  # noqa
        run = execute(factory, tuple(case['script']), tuple(case['choices']))
        return [{'sig': s, 'what': w} for s, w in judge(case['fe'], calls, case['answers'], run, case['local'], case['drift'])]
    if case['kind'] == 'sched':
        calls = [tuple(c) for c in case['calls']]
        factory = lambda loop, trace: RegScenario(loop, trace, case['fe'], calls, case['answers'])  # noqa
        run = execute(factory, tuple(case['script']), tuple(case['choices']))
        v = judge(case['fe'], calls, case['answers'], run)
    elif case['kind'] == 'routes':
        v, _ = run_routes(case['fe'])
    else:
        v = run_decode(case['mask'], case['rot'])
    return [{'sig': s, 'what': w} for s, w in v]


if __name__ == '__main__':
    import json, sys
    rec = json.load(open(sys.argv[1]))
    case = rec['case']
    calls = [tuple(c) for c in case['calls']]
    factory = lambda loop, trace: RegScenario(loop, trace, case['fe'], calls, case['answers'])  # noqa
    run = execute(factory, tuple(case['script']), tuple(case['choices']))
    for e in run.trace:
        print('  ', e)
    o = dict(run.obs)
    for c in o['cmds']:
        c['wire'] = c['wire'][:20]
    print(o)
    print(judge(case['fe'], calls, case['answers'], run))
