"""
C18 - state-vector sync merges monotonically and announces exactly when needed.

E-hist: breadth-first search over all histories of {receive vector v, publish, timer expiry with min/max jitter} on a real
SvsInst (on appv2 + harness face, virtual clock), v ranging over every state vector on node ids {self, p, q} with sequence
numbers {absent, 0, 1, 2} plus malformed / empty / wrong-name-length Interests, with deduplication on the complete state.
A second, small search pushes the sync Interests one real instance emits through the real receive path of another.
Oracle: entry-wise-max reference with suppression bookkeeping written from the statement.
"""
from __future__ import annotations

import itertools

import ndn.encoding as enc
from ndn.app_support.svs import SvsInst
from ndn.app_support.svs import sync as svs_sync
from ndn.security import DigestSha256Signer
from ndn import types as nt

import mc
from mc.core import Acc
from mc.bfs import explore_histories
from mc.vloop import VLoop, FakeTime
from mc.ndnenv import HFace, FRONTENDS, owned_env
from mc.ref import tlv_strict as ts
from mc.ref import ndn_strict as ns

PROPERTY = 'C18'
BASE = '/sync/grp'
IDS = {'s': '/node/self', 'p': '/node/p', 'q': '/node/q'}
ID_WIRE = {k: bytes(enc.Name.to_bytes(v)) for k, v in IDS.items()}
WIRE_ID = {v: k for k, v in ID_WIRE.items()}


def vec_component(v: dict, order='spq') -> bytes:
    """state vector as the name component the protocol uses: type 0xc9 { 0xca { Name, 0xcc seq } ... }"""
    entries = b''
    for k in order:
        if k in v and v[k] is not None:
            entries += ts.tlv(0xca, ID_WIRE[k] + ts.tlv(0xcc, ts.uint(v[k])))
    return ts.tlv(0xc9, entries)


MALFORMED = {
    'garbage-component': ts.tlv(8, b'abc'),
    'bad-uint-width': ts.tlv(0xc9, ts.tlv(0xca, ID_WIRE['p'] + ts.tlv(0xcc, b'\x00\x00\x01'))),
    'truncated-inner': ts.tlv(0xc9, b'\xca\x30' + ID_WIRE['p']),
    'unknown-critical': ts.tlv(0xc9, ts.tlv(0xcb, b'\x01') + ts.tlv(0xca, ID_WIRE['p'] + ts.tlv(0xcc, b'\x02'))),
    'entry-without-seq': ts.tlv(0xc9, ts.tlv(0xca, ID_WIRE['p'])),
    'entry-without-id': ts.tlv(0xc9, ts.tlv(0xca, ts.tlv(0xcc, b'\x02'))),
    'empty-vector': ts.tlv(0xc9, b''),
    # malformed *entries*: an unknown critical element, a second node id, the sequence number before the node id
    'entry-unknown-critical': ts.tlv(0xc9, ts.tlv(0xca, ID_WIRE['p'] + ts.tlv(0xcb, b'\x01') + ts.tlv(0xcc, b'\x02'))),
    'entry-two-ids': ts.tlv(0xc9, ts.tlv(0xca, ID_WIRE['p'] + ID_WIRE['q'] + ts.tlv(0xcc, b'\x02'))),
    'entry-seq-before-id': ts.tlv(0xc9, ts.tlv(0xca, ts.tlv(0xcc, b'\x02') + ID_WIRE['p']) + ts.tlv(0xca, ID_WIRE['q'] + ts.tlv(0xcc, b'\x01'))),
    'good-entry-then-bad-entry': ts.tlv(0xc9, ts.tlv(0xca, ID_WIRE['q'] + ts.tlv(0xcc, b'\x01')) + ts.tlv(0xca, ID_WIRE['p'] + ts.tlv(0xcb, b'') + ts.tlv(0xcc, b'\x02'))),
    # the own node listed twice, one of the claims exceeding what it has produced: "claims more than produced" -> ignored entirely
    'own-node-twice-excess-first': ts.tlv(0xc9, ts.tlv(0xca, ID_WIRE['s'] + ts.tlv(0xcc, ts.uint(99))) + ts.tlv(0xca, ID_WIRE['p'] + ts.tlv(0xcc, ts.uint(2)))
                                          + ts.tlv(0xca, ID_WIRE['s'] + ts.tlv(0xcc, ts.uint(0)))),
    'own-node-twice-excess-last': ts.tlv(0xc9, ts.tlv(0xca, ID_WIRE['s'] + ts.tlv(0xcc, ts.uint(0))) + ts.tlv(0xca, ID_WIRE['p'] + ts.tlv(0xcc, ts.uint(2)))
                                         + ts.tlv(0xca, ID_WIRE['s'] + ts.tlv(0xcc, ts.uint(99)))),
}


def all_vectors(maxseq):
    vals = [None] + list(range((maxseq if maxseq != 'small' else 2) + 1))
    if maxseq == 'small':
        dom = ([None, 0, 1], [None, 1, 2], [None, 1])
    else:
        dom = (vals, vals, vals)
    for s, p, q in itertools.product(*dom):
        v = {}
        if s is not None:
            v['s'] = s
        if p is not None:
            v['p'] = p
        if q is not None:
            v['q'] = q
        yield v


def op_list(maxseq):
    ops = []
    for v in all_vectors(maxseq):
        ops.append(('recv', tuple(sorted(v.items()))))
        if 's' in v and len(v) > 1:
            # same vector with the own-node entry last on the wire
            ops.append(('recv', tuple(sorted(v.items())), 'pqs'))
        if len(v) == 3:
            # the own-node entry between the two others (an entry the receiver is ahead in, between two it may be behind in)
            ops.append(('recv', tuple(sorted(v.items())), 'psq'))
            ops.append(('recv', tuple(sorted(v.items())), 'qsp'))
    for v in ({'p': 1}, {'p': 2}, {'p': 1, 'q': 1}, {'s': 0, 'p': 1}, {'s': 1, 'p': 2}, {'q': 1}):
        ops.append(('pub+recv', tuple(sorted(v.items()))))
    for m in MALFORMED:
        ops.append(('bad', m))
    ops.append(('short-name',))
    ops.append(('pub',))
    ops.append(('tick', 0))
    ops.append(('tick', 65535))
    # simplest first
    ops.sort(key=lambda o: (o[0] not in ('pub', 'tick'), len(o[1]) if o[0] == 'recv' else 9, repr(o)))
    return ops


class JitterSource:
    def __init__(self):
        self.value = 32768

    def randbits(self, n):
        return self.value


def nz(d):
    return {k: v for k, v in d.items() if v}


class World:
    variant = 'plain'

    def __init__(self):
        self.loop = VLoop()
        self.loop.enter()
        self.env = owned_env(self.loop)
        self.env.__enter__()
        self.jit = JitterSource()
        self.old_bits = mc.CUR.get('randbits')
        mc.CUR['randbits'] = self.jit.randbits          # timer jitter (secrets.randbits) is a harness decision
        self.face = HFace()
        self.app = FRONTENDS['v2'].make_app(self.face)
        self.loop.create_task(self.app.main_loop())
        self.loop.drain()
        self.missing = []

        async def ok(name, sig, ctx):
            return nt.ValidResult.PASS
        seq0 = 7 if self.variant == 'resumed' else 0
        def on_missing(inst):
            self.missing.append(dict(inst.local_sv))
            if self.variant == 'cbpub':
                inst.new_data()         # an application that answers news with a publication of its own, from inside the callback
        self.inst = SvsInst(BASE, IDS['s'], on_missing,
                            DigestSha256Signer(for_interest=True), ok, sync_interval=30, suppression_interval=0.2,
                            last_used_seq_num=seq0)
        self.start_viol = []
        if self.variant == 'resumed':
            # an application resuming with sequence number 7 publishes once before it starts the instance
            got = self.inst.new_data()
            if got != 8 or self.inst.self_seq != 8:
                self.start_viol.append(('C18|publish-seq|before-start', f'publication before start() after last_used_seq_num=7 got sequence number {got}'))
        self.inst.start(self.app)
        self.loop.drain()
        if self.variant == 'resumed' and nz({WIRE_ID.get(bytes(k), '?'): v for k, v in self.inst.local_sv.items()}) != {'s': 8}:
            self.start_viol.append(('C18|publish-seq|before-start', f'local vector after start is {dict(self.inst.local_sv)}, own entry should be 8'))
        self.H = None            # merge of the vectors heard in the current suppression period (None = not in one)
        self.nsent = len(self.face.sent)

    def close(self):
        try:
            self.inst.stop()
            self.app.shutdown()
            self.loop.settle(200)
        except Exception:  # noqa
            pass
        mc.CUR['randbits'] = self.old_bits
        self.env.__exit__(None, None, None)
        self.loop.__exit__(None, None, None)

    # -- observation helpers ------------------------------------------------------------------
    def local(self):
        out = {}
        for k, v in self.inst.local_sv.items():
            out[WIRE_ID.get(bytes(k), bytes(k).hex())] = v
        return out

    def new_interests(self):
        out = self.face.sent[self.nsent:]
        self.nsent = len(self.face.sent)
        return out

    def decode_sync(self, wire):
        r = ns.read_interest(wire)
        base = [bytes(c) for c in enc.Name.from_str(BASE)]
        if r['name'][:len(base)] != base or len(r['name']) != len(base) + 2:
            return None
        comp = ts.read_single(r['name'][len(base)])
        if comp.typ != 0xc9:
            return None
        vec = {}
        for e in comp.children():
            if e.typ != 0xca:
                return None
            f = e.children()
            if [x.typ for x in f] != [7, 0xcc]:
                return None
            vec[WIRE_ID.get(f[0].wire, f[0].wire.hex())] = ts.read_uint(f[1])
        return vec

    def failures(self):
        return self.loop.task_failures() + [{'exception': h.get('exception'), 'where': h.get('where')} for h in self.loop.handler_reports]

    def canon(self):
        i = self.inst
        rel = round((i.next_sync_timing - mc.CUR['clock'].time()) * 1e6)
        agg = tuple(sorted((WIRE_ID.get(bytes(k), bytes(k).hex()), v) for k, v in i.agg_sv.items())) if i.state.name == 'SyncSuppression' else ()
        return (tuple(sorted(nz(self.local()).items())), agg, i.state.name, i.self_seq, rel,
                None if self.H is None else tuple(sorted(nz(self.H).items())), i.timer_rst_event.is_set())

    def summary(self):
        return {'local': self.local(), 'state': self.inst.state.name, 'H': self.H}

    # -- operations -----------------------------------------------------------------------------------
    def apply(self, op):
        viol = list(self.start_viol)
        if viol:
            return viol
        kind = op[0]
        before = self.local()
        seq_before0 = self.inst.self_seq
        state_before = self.inst.state.name
        nmiss = len(self.missing)
        nfail = len(self.failures())
        self.jit.value = 32768

        def bad(clause, what):
            viol.append((f'C18|{clause}', f'{what}; op {op}'))

        if kind in ('recv', 'bad', 'short-name'):
            base = enc.Name.from_str(BASE)
            if kind == 'recv':
                v = dict(op[1])
                comp = vec_component(v, op[2] if len(op) > 2 else 'spq')
                name = base + [comp, ts.tlv(2, b'\x00' * 32)]
            elif kind == 'bad':
                v = None
                name = base + [MALFORMED[op[1]], ts.tlv(2, b'\x00' * 32)]
            else:
                v = None
                name = base + [vec_component({'p': 2})]
            try:
                self.inst.sync_handler(name, None, lambda d: True, {})
            except Exception as e:  # noqa
                from mc.vloop import tb_where
                bad(f'handler-raises:{type(e).__name__}|{op[1] if kind == "bad" else kind}', f'sync_handler raised {e!r} ({tb_where(e)})')
                return viol
            self.loop.drain()
            after = self.local()
            fired = len(self.missing) - nmiss
            accepted = v is not None and len(v) > 0 and not ('s' in v and v['s'] > self.inst.self_seq)
            if not accepted:
                if nz(after) != nz(before):
                    bad('rejected-vector-merged', f'local vector changed from {before} to {after} by a vector that must be ignored')
                if fired:
                    bad('rejected-vector-callback', 'missing-data callback fired for a vector that must be ignored')
            else:
                want = dict(before)
                rose = False
                for k, s in v.items():
                    if s > want.get(k, 0):
                        want[k] = s
                        rose = True
                republished = self.variant == 'cbpub' and fired > 0
                if republished:
                    want['s'] = seq_before0 + 1
                    if self.inst.self_seq != seq_before0 + 1:
                        bad('publish-seq|from-callback', f'publishing from the missing-data callback: own sequence number {seq_before0} -> {self.inst.self_seq}')
                if nz(after) != nz(want):
                    bad('merge', f'local vector {before} after receiving {v} is {after}, entry-wise maximum is {want}')
                if any(after.get(k, 0) < b for k, b in before.items()):
                    bad('decreased', f'local vector decreased: {before} -> {after}')
                if bool(fired) != rose or fired > 1:
                    bad(f'missing-callback|fired={fired}|rose={rose}', f'missing-data callback fired {fired} time(s) for {v} on {before} (some entry rose: {rose})')
                # a vector that is behind the local one in an entry it lists (its sender lacks data we know of) has to be answered:
                # the instance waits for a suppression period before it does (unless the callback published meanwhile)
                behind = any(s < before.get(k, 0) for k, s in v.items())
                if behind and state_before == 'SyncSteady' and not republished and self.inst.state.name != 'SyncSuppression':
                    bad('outdated-vector-not-answered', f'received {v} is behind the local vector {before} in an entry it lists, but no suppression '
                                                        f'period was started (state {self.inst.state.name})')
                # suppression bookkeeping (from the instance's public state)
                if self.inst.state.name == 'SyncSuppression':
                    if state_before == 'SyncSuppression' and self.H is not None:
                        for k, s in v.items():
                            self.H[k] = max(self.H.get(k, 0), s)
                    else:
                        self.H = dict(v)
                else:
                    self.H = None
                if republished:
                    self.H = None
                    ints = self.new_interests()
                    if len(ints) != 1:
                        bad(f'publish-emission|from-callback|n={len(ints)}',
                            f'{len(ints)} sync Interests emitted promptly after publishing from the missing-data callback (expected 1)')
                    for w in ints:
                        vec = self.decode_sync(w)
                        if vec is None or nz(vec) != nz(after):
                            bad('emitted-vector', f'sync Interest carries {vec}, local vector is {after}')
            if self.new_interests():
                bad('receive-emits', 'a sync Interest was emitted while handling a received vector without time passing')
        elif kind == 'pub':
            seq_before = self.inst.self_seq
            self.inst.new_data()
            self.loop.drain()
            self.H = None
            after = self.local()
            if self.inst.self_seq != seq_before + 1 or after.get('s') != seq_before + 1:
                bad('publish-seq', f'own sequence number {seq_before} -> {self.inst.self_seq}, vector entry {after.get("s")}')
            ints = self.new_interests()
            if len(ints) != 1:
                bad(f'publish-emission|n={len(ints)}', f'{len(ints)} sync Interests emitted promptly after publishing (expected 1)')
            for w in ints:
                vec = self.decode_sync(w)
                if vec is None or nz(vec) != nz(after):
                    bad('emitted-vector', f'sync Interest carries {vec}, local vector is {after}')
        elif kind == 'pub+recv':
            # the application publishes and, before the timer task gets its turn (same loop iteration), a sync Interest is handled
            seq_before = self.inst.self_seq
            v = dict(op[1])
            if self.variant == 'cbpub' or ('s' in v and v['s'] > seq_before):
                # (a vector sent before the publication cannot know it; the republishing application has its own search)
                return viol
            name = enc.Name.from_str(BASE) + [vec_component(v), ts.tlv(2, b'\x00' * 32)]
            self.inst.new_data()
            try:
                self.inst.sync_handler(name, None, lambda d: True, {})
            except Exception as e:  # noqa
                from mc.vloop import tb_where
                bad(f'handler-raises:{type(e).__name__}|pub+recv', f'sync_handler raised {e!r} ({tb_where(e)})')
                return viol
            self.loop.drain()
            after = self.local()
            want = dict(before)
            want['s'] = seq_before + 1
            accepted = len(v) > 0 and not ('s' in v and v['s'] > seq_before + 1)
            if accepted:
                for k, sq in v.items():
                    want[k] = max(want.get(k, 0), sq)
            if nz(after) != nz(want) or self.inst.self_seq != seq_before + 1:
                bad('merge|pub+recv', f'publication followed at once by {v}: local vector {after}, expected {want}')
            ints = self.new_interests()
            if len(ints) > 1:
                bad(f'publish-emission|pub+recv|n={len(ints)}', f'{len(ints)} sync Interests emitted')
            announced = any(nz(self.decode_sync(w) or {}) == nz(after) for w in ints)
            if not announced:
                # not announced at once: then a suppression period must be running, at whose end the publication goes out
                if self.inst.state.name != 'SyncSuppression':
                    bad('publish-emission|pub+recv|lost', f'publication followed at once by {v}: nothing emitted and no suppression period running '
                                                          f'(the announcement waits for the next periodic expiry)')
                else:
                    nxt = self.loop.next_timer_us()
                    if nxt is not None:
                        self.loop.advance_to_us(nxt)
                        self.loop.drain()
                    later = self.new_interests()
                    if not any(nz(self.decode_sync(w) or {}) == nz(self.local()) for w in later):
                        bad('publish-emission|pub+recv|lost-after-suppression', f'publication followed at once by {v}: not announced at the end of the suppression period either')
            self.H = None if self.inst.state.name != 'SyncSuppression' else self.H
        elif kind == 'tick':
            self.jit.value = op[1]
            nxt = self.loop.next_timer_us()
            if nxt is None:
                bad('no-timer', 'no sync timer is pending')
                return viol
            self.loop.advance_to_us(nxt)
            self.loop.drain()
            ints = self.new_interests()
            local = self.local()
            if state_before == 'SyncSuppression':
                H = self.H or {}
                need = any(s > H.get(k, 0) for k, s in local.items())
                if bool(ints) != need or len(ints) > 1:
                    bad(f'suppression-expiry|emitted={len(ints)}|needed={need}',
                        f'after the suppression period {len(ints)} sync Interest(s) emitted; local {local}, merge of vectors heard {H}')
                self.H = None
            for w in ints:
                vec = self.decode_sync(w)
                if vec is None or nz(vec) != nz(local):
                    bad('emitted-vector', f'sync Interest carries {vec}, local vector is {local}')
            if self.missing[nmiss:]:
                bad('timer-callback', 'missing-data callback fired on a timer expiry')
        for f in self.failures()[nfail:]:
            bad(f"task-error|{f['exception']}@{f['where']}", f'{f}')
        return viol


class ResumedWorld(World):
    variant = 'resumed'


class CbPubWorld(World):
    variant = 'cbpub'


WORLDS = {'plain': World, 'resumed': ResumedWorld, 'cbpub': CbPubWorld}


# -- relay scenario: the Interests one instance emits go through the real receive path of another -----------------
def run_relay(seq):
    """seq over {'pubA','pubB','A>B','B>A','tickA','tickB'}"""
    viol = []
    loop = VLoop()
    old_bits = mc.CUR.get('randbits')
    with loop, owned_env(loop):
        mc.CUR['randbits'] = JitterSource().randbits
        try:
            nodes = {}
            for nm in 'AB':
                face = HFace()
                app = FRONTENDS['v2'].make_app(face)
                loop.create_task(app.main_loop())
                loop.drain()
                missing = []

                async def ok(name, sig, ctx):
                    return nt.ValidResult.PASS
                inst = SvsInst(BASE, f'/node/{nm}', lambda i, m=missing: m.append(1), DigestSha256Signer(for_interest=True), ok)
                inst.start(app)
                loop.drain()
                nodes[nm] = {'face': face, 'app': app, 'inst': inst, 'missing': missing, 'fwd': 0}
            for step in seq:
                if step.startswith('pub'):
                    other = 'B' if step[3] == 'A' else 'A'
                    seen_before = {bytes(k): v for k, v in nodes[other]['inst'].local_sv.items()}
                    nmiss = len(nodes[other]['missing'])
                    nodes[step[3]]['inst'].new_data()
                    loop.drain()
                    # nothing has been delivered to the other instance: what one instance publishes is its own state
                    if {bytes(k): v for k, v in nodes[other]['inst'].local_sv.items()} != seen_before or len(nodes[other]['missing']) != nmiss:
                        viol.append(('C18|relay|instances-share-state', f'{seq}: a publication of {step[3]} changed the state of {other} '
                                                                       f'although no sync Interest was delivered to it'))
                elif step.startswith('tick'):
                    pass
                else:
                    src, dst = step[0], step[2]
                    out = nodes[src]['face'].sent
                    while nodes[src]['fwd'] < len(out):
                        w = out[nodes[src]['fwd']]
                        nodes[src]['fwd'] += 1
                        before = dict(nodes[dst]['inst'].local_sv)
                        nodes[dst]['face'].deliver(w)
                        loop.drain()
                        src_vec = dict(nodes[src]['inst'].local_sv)
                        after = nodes[dst]['inst'].local_sv
                        for k, s in src_vec.items():
                            if bytes(k) != nodes[dst]['inst'].self_node_id and after.get(k, 0) < s and s <= max(src_vec.values()):
                                # the forwarded Interest carried the sender's vector at emission time (<= its current one)
                                pass
                        if any(after.get(k, 0) < v for k, v in before.items()):
                            viol.append(('C18|relay|decreased', f'{seq}: {before} -> {dict(after)}'))
                        # the receiver learns of news exactly through its callback
                        rose = any(v > before.get(k, 0) for k, v in after.items())
                        nmiss_dst = nodes[dst].setdefault('nmiss', 0)
                        fired = len(nodes[dst]['missing']) - nmiss_dst
                        nodes[dst]['nmiss'] = len(nodes[dst]['missing'])
                        if bool(fired) != rose:
                            viol.append((f'C18|relay|missing-callback|fired={fired}|rose={rose}',
                                         f'{seq}: delivering a sync Interest of {src} to {dst}: vector {before} -> {dict(after)}, callback fired {fired} time(s)'))
            # after forwarding everything both ways the vectors must agree
            for _ in range(3):
                for src, dst in (('A', 'B'), ('B', 'A')):
                    out = nodes[src]['face'].sent
                    while nodes[src]['fwd'] < len(out):
                        nodes[dst]['face'].deliver(out[nodes[src]['fwd']])
                        nodes[src]['fwd'] += 1
                        loop.drain()
                # let pending suppression timers fire
                for _k in range(2):
                    nxt = loop.next_timer_us()
                    if nxt is not None and nxt - loop.us < 1_000_000:
                        loop.advance_to_us(nxt)
                        loop.drain()
            a = {bytes(k): v for k, v in nodes['A']['inst'].local_sv.items() if v}
            b = {bytes(k): v for k, v in nodes['B']['inst'].local_sv.items() if v}
            npub = {'A': seq.count('pubA'), 'B': seq.count('pubB')}
            want = {bytes(enc.Name.to_bytes(f'/node/{n}')): c for n, c in npub.items() if c}
            if a != want or b != want:
                viol.append(('C18|relay|no-convergence', f'{seq}: A has {a}, B has {b}, published {npub}'))
            for f in loop.task_failures():
                viol.append((f"C18|relay|task-error|{f['exception']}@{f['where']}", f'{seq}: {f}'))
            for nm in 'AB':
                nodes[nm]['inst'].stop()
                nodes[nm]['app'].shutdown()
            loop.settle(200)
        finally:
            mc.CUR['randbits'] = old_bits
    return viol


RELAY_OPS = ['pubA', 'pubB', 'A>B', 'B>A']


RESTART_KINDS = ('same-loop-settled', 'same-loop-immediately', 'second-loop', 'second-loop-twice', 'publish-while-stopped')
RESTART_PRE = ((), ('pub',), ('recv',), ('pub', 'recv'), ('recv-outdated',), ('tick',), ('pub', 'tick'))


def run_restart(kind, pre):
    """an instance is stopped and started again (in the same run, or when the application is run a second time on a new event loop);
    afterwards a publication must still be announced promptly, once, with the full vector"""
    viol = []
    w = World()
    closed = False
    base = enc.Name.from_str(BASE)

    def sync_vectors(wires):
        return [v for v in (w.decode_sync(x) for x in wires) if v is not None]
    try:
        for op in pre:
            if op == 'pub':
                w.inst.new_data()
            elif op == 'tick':
                nxt0 = w.loop.next_timer_us()
                if nxt0 is not None:
                    w.loop.advance_to_us(nxt0)      # the periodic timer fires once and is armed again
            elif op == 'recv':
                w.inst.sync_handler(base + [vec_component({'p': 2}), ts.tlv(2, b'\x00' * 32)], None, lambda d: True, {})
            else:
                # an outdated vector: the instance is stopped while in a suppression period
                w.inst.new_data()
                w.loop.drain()
                w.inst.sync_handler(base + [vec_component({'s': 0, 'p': 1}), ts.tlv(2, b'\x00' * 32)], None, lambda d: True, {})
            w.loop.drain()
        rounds = 2 if kind == 'second-loop-twice' else 1
        known_before = nz(w.local())
        for _ in range(rounds):
            if kind.startswith('second-loop'):
                inst = w.inst
                w.inst.stop()
                w.app.shutdown()
                w.loop.settle(200)
                w.env.__exit__(None, None, None)
                w.loop.__exit__(None, None, None)
                # the application is run a second time
                w.loop = VLoop()
                w.loop.enter()
                w.env = owned_env(w.loop)
                w.env.__enter__()
                mc.CUR['randbits'] = w.jit.randbits
                w.face = HFace()
                w.app = FRONTENDS['v2'].make_app(w.face)
                w.loop.create_task(w.app.main_loop())
                w.loop.drain()
                inst.start(w.app)
                w.loop.drain()
                w.nsent = len(w.face.sent)
            elif kind == 'publish-while-stopped':
                w.inst.stop()
                w.loop.drain()
                w.new_interests()
                seq0 = w.inst.self_seq
                got = w.inst.new_data()         # the application publishes while the instance is stopped ...
                w.loop.drain()
                w.inst.start(w.app)             # ... and the announcement goes out promptly once it runs again
            else:
                w.inst.stop()
                if kind == 'same-loop-settled':
                    w.loop.drain()
                w.inst.start(w.app)
                w.loop.drain()
            if kind != 'publish-while-stopped':
                w.new_interests()
        if kind != 'publish-while-stopped':
            seq0 = w.inst.self_seq
            got = w.inst.new_data()
        w.loop.drain()
        vecs = sync_vectors(w.new_interests())
        want = nz(w.local())
        lost = {k: v for k, v in known_before.items() if k != 's' and want.get(k, 0) < v}
        if lost:
            viol.append((f'C18|restart|{kind}|vector-decreased', f'after stop() / start() the local vector is {want}, it was {known_before} before '
                                                                f'(before the restart: {list(pre)})'))
        if got != seq0 + 1:
            viol.append((f'C18|restart|{kind}|publish-seq', f'publication after the restart got sequence number {got}, the one before was {seq0}'))
        if len(vecs) != 1:
            viol.append((f'C18|restart|{kind}|publish-emits={len(vecs)}', f'a publication after stop() / start() emitted {len(vecs)} sync Interests instead of one '
                                                                         f'(before the restart: {list(pre)})'))
        elif nz(vecs[0]) != want:
            viol.append((f'C18|restart|{kind}|publish-vector', f'sync Interest after the restart carries {vecs[0]}, local vector is {want}'))
        # the periodic timer still runs, once
        nxt = w.loop.next_timer_us()
        if nxt is None:
            viol.append((f'C18|restart|{kind}|no-timer', 'no sync timer is pending after the restart'))
        else:
            w.loop.advance_to_us(nxt)
            w.loop.drain()
            vecs = sync_vectors(w.new_interests())
            if len(vecs) > 1:
                viol.append((f'C18|restart|{kind}|timer-emits={len(vecs)}', f'one timer expiry after stop() / start() emitted {len(vecs)} sync Interests'))
            for v in vecs:
                if nz(v) != nz(w.local()):
                    viol.append((f'C18|restart|{kind}|timer-vector', f'sync Interest carries {v}, local vector is {w.local()}'))
        for f in w.failures():
            viol.append((f"C18|restart|{kind}|task-error|{f['exception']}@{f['where']}", f'{f} (before the restart: {list(pre)})'))
    except Exception as e:  # noqa
        from mc.vloop import tb_where
        viol.append((f'C18|restart|{kind}|raises:{type(e).__name__}@{tb_where(e)}', f'{e!r} (before the restart: {list(pre)})'))
    finally:
        w.close()
    return viol


def plan(tier, seed):
    maxseq = 'small' if tier == 'quick' else 2
    depth = 4
    ops = op_list(maxseq)
    units = [{'kind': 'bfs', 'first': i, 'depth': depth, 'maxseq': maxseq} for i in range(len(ops))]
    units += [{'kind': 'bfs', 'first': i, 'depth': 2, 'maxseq': maxseq, 'variant': 'resumed'} for i in range(len(ops))]
    units += [{'kind': 'bfs', 'first': i, 'depth': 3, 'maxseq': maxseq, 'variant': 'cbpub'} for i in range(len(ops))]
    rd = 5 if tier == 'quick' else 7
    units += [{'kind': 'relay', 'first': f, 'depth': rd} for f in RELAY_OPS]
    units.append({'kind': 'restart'})
    return {
        'units': units,
        'rule': 'state = history of operations replayed on a fresh SvsInst; BFS with deduplication on (local vector, aggregate, mode, own '
                'sequence, timer offset, merge of vectors heard, event flag); one search per first operation (dedup within the search). '
                'Non-trivial = history containing at least two operations of different kinds.',
        'bounds': {'operations': len(ops), 'node_ids': 3, 'vector_domain': 'self in {-,0,1} x p in {-,1,2} x q in {-,1}' if maxseq == 'small' else 'each of self,p,q in {-,0,1,2}', 'depth': depth, 'malformed_kinds': list(MALFORMED),
                   'relay_depth': rd},
        'assumptions': ['vectors with a duplicated node id are outside the alphabet, except the own node listed twice with one excessive claim',
                        'whether a received vector starts a suppression period is read from the instance\'s public state; the statement only '
                        'constrains what happens when such a period ends',
                        '"promptly" after publishing = before virtual time advances when nothing intervenes',
                        'periodic (steady-state) timer expiries carry no emission claim; emitted vectors must still equal the local vector'],
    }


def unit(arg):
    acc = Acc()
    if arg['kind'] == 'bfs':
        ops = op_list(arg['maxseq'])
        first = ops[arg['first']]

        def on_t(hist, key, viol, summary):
            acc.evaluations += 1
            acc.transitions += 1
            acc.state(hash(key))
            if len({o[0] for o in hist}) > 1:
                acc.nontrivial += 1
            acc.outcome(f"{hist[-1][0]}|{summary['state'] if summary else '?'}|{'viol' if viol else 'ok'}")
            acc.observe([repr(hist), repr(key), [v[0] for v in viol]])
            for sig, what in viol:
                acc.violation(sig, what + f'; history {list(hist)}', {'kind': 'bfs', 'variant': arg.get('variant', 'plain'), 'hist': [list(o) if o[0] != 'recv' else ['recv', [list(x) for x in o[1]]] + list(o[2:]) for o in hist]})
            if acc.evaluations % 400 == 1:
                acc.sample({'history': [repr(o) for o in hist], 'state': summary})
        # the interleaved publish+receive operations are explored in histories of up to three operations
        def allow(hist, op):
            return len(hist) < 3 or (op[0] != 'pub+recv' and not any(h[0] == 'pub+recv' for h in hist))
        res = explore_histories(WORLDS[arg.get('variant', 'plain')], ops, arg['depth'], [(first,)], on_t, expand_filter=allow)
        acc.notes['bfs_states'] += res['states']
    elif arg['kind'] == 'restart':
        for kind, pre in itertools.product(RESTART_KINDS, RESTART_PRE):
            v = run_restart(kind, pre)
            acc.evaluations += 1
            acc.transitions += len(pre) + 3
            acc.state(hash((kind, pre)))
            acc.nontrivial += 1
            acc.outcome(f"restart|{kind}|{'ok' if not v else 'viol'}")
            acc.observe([kind, pre, [x[0] for x in v]])
            for sig, what in v:
                acc.violation(sig, what, {'kind': 'restart', 'what': kind, 'pre': list(pre)})
        acc.sample({'restart_kinds': list(RESTART_KINDS), 'before_the_restart': [list(p) for p in RESTART_PRE]})
    else:
        for tail in itertools.product(RELAY_OPS, repeat=arg['depth'] - 1):
            seq = [arg['first']] + list(tail)
            v = run_relay(seq)
            acc.evaluations += 1
            acc.transitions += len(seq)
            acc.state(hash(tuple(seq)))
            acc.nontrivial += 1
            acc.outcome(f"relay|{'ok' if not v else 'viol'}")
            acc.observe([seq, [x[0] for x in v]])
            for sig, what in v:
                acc.violation(sig, what, {'kind': 'relay', 'seq': seq})
        acc.sample({'relay_sequence': seq})
    return acc


def _op_from_json(o):
    if o[0] == 'recv':
        return ('recv', tuple(tuple(x) for x in o[1])) + tuple(o[2:])
    return tuple(o)


def replay(case):
    if case['kind'] == 'relay':
        return [{'sig': s, 'what': w} for s, w in run_relay(case['seq'])]
    if case['kind'] == 'restart':
        return [{'sig': s, 'what': w} for s, w in run_restart(case['what'], tuple(case['pre']))]
    hist = [_op_from_json(o) for o in case['hist']]
    w = WORLDS[case.get('variant', 'plain')]()
    out = []
    try:
        for op in hist:
            v = w.apply(op)
            if v:
                out = v
                break
    finally:
        w.close()
    return [{'sig': s, 'what': x} for s, x in out]
