"""
C19 - segmented fetch yields every segment once, in order, tolerating bounded loss.

E-sched (environment-answer exploration): the real segment_fetcher on the legacy NDNApp on a virtual loop against a
simulated producer.  Complete product: object (unsegmented, N=1..4 segments) x discovery answer (any segment k / the
unsegmented Data) x final-block marker variant x retry limit 1..3, times every loss pattern with <= D deviations, a
deviation being a dropped answer, a Nack or a validator-rejected Data at one request attempt (stateless DFS over the
producer's answers: prefix replay, default = answer).  Oracle: reference fetch function written from the statement.
"""
from __future__ import annotations

import asyncio

import ndn.encoding as enc
from ndn import types as nt
from ndn.app_support.segment_fetcher import segment_fetcher
from ndn.security import DigestSha256Signer

from mc.core import Acc
from mc.vloop import VLoop, tb_where
from mc.ndnenv import HFace, FRONTENDS, owned_env
from mc.ref import ndn_strict as ns
from mc.ref import tlv_strict as ts

PROPERTY = 'C19'
PREFIX = '/obj/v1'
FINALS = ['last-only', 'every', 'absent', 'earlier', 'other-type', 'first-only']


def configs():
    for retry in (1, 2, 3):
        yield {'n': 0, 'k': None, 'final': 'absent', 'retry': retry}          # unsegmented
        for n in (1, 2, 3, 4):
            for k in range(n):
                for final in FINALS:
                    if final == 'earlier' and n < 2:
                        continue
                    yield {'n': n, 'k': k, 'final': final, 'retry': retry}


def extra_configs():
    """object published under a longer name than the one asked for (version component), and the other accepted forms of the
    name argument (component list, one-shot generator, wire bytes)"""
    for retry in (1, 2):
        for n in (1, 2, 3):
            for k in range(n):
                for final in ('last-only', 'absent'):
                    yield {'n': n, 'k': k, 'final': final, 'retry': retry, 'ver': True}
        yield {'n': 0, 'k': None, 'final': 'absent', 'retry': retry, 'ver': True}
        for form in ('list', 'gen', 'bytes'):
            yield {'n': 0, 'k': None, 'final': 'absent', 'retry': retry, 'form': form}
            for n in (2, 3):
                for k in (0, n - 1):
                    yield {'n': n, 'k': k, 'final': 'last-only', 'retry': retry, 'form': form}
    yield {'n': 2, 'k': 1, 'final': 'last-only', 'retry': 3, 'form': 'gen', 'ver': True}
    # no validator argument: the application's own default Data validator decides
    for retry in (1, 2):
        for n in (0, 2):
            for k in (range(n) if n else (None,)):
                yield {'n': n, 'k': k, 'final': 'last-only' if n else 'absent', 'retry': retry, 'dv': True}
    # two consumers of the same object at once on one application (no losses)
    for n in (1, 2, 3):
        for k in range(n):
            for final in ('last-only', 'every', 'absent'):
                yield {'n': n, 'k': k, 'final': final, 'retry': 1, 'twins': True}
    # the forwarder numbers its link-layer packets: every answer arrives in an LpPacket with a Sequence header
    for retry in (1, 2):
        for n in (0, 1, 3):
            for k in (range(n) if n else (None,)):
                yield {'n': n, 'k': k, 'final': 'last-only' if n else 'absent', 'retry': retry, 'lp': True}


def final_of(cfg, seg):
    n = cfg['n']
    f = cfg['final']
    if f == 'last-only':
        return n - 1 if seg == n - 1 else None
    if f == 'every':
        return n - 1
    if f == 'first-only':
        # the producer announces the end once, in segment 0, and does not repeat it (the field is optional per packet)
        return n - 1 if seg == 0 else None
    if f == 'earlier':
        return max(n - 2, 0)
    return None        # 'absent', and 'other-type' (a FinalBlockId that is never equal to the last name component)


def reference(cfg, decisions):
    """returns (yields: list of segment numbers or ['U'], terminal: 'ok'|'timeout'|'nack'|'invalid', requests: list of (kind, seg)).
    Answers per request attempt: 'a' at once, 'd' never, 'n'/'N' Nack at once, 'i' at once but refused by the validator,
    'S' slow (1 ms before the lifetime ends: in time), 'L' late (0.5 ms after the lifetime ended: that attempt has failed, but the
    Data is in the network and answers whatever matching request is pending when it arrives; at most one L, never next to an S)."""
    attempt = [0]
    reqs = []
    retry = cfg['retry']
    clock = [0.0]
    late = [None]           # (arrival instant, segment number carried or 'U')

    def request(kind, seg):
        fails = 0
        while True:
            i = attempt[0]
            d = decisions[i] if i < len(decisions) else 'a'
            attempt[0] += 1
            reqs.append((kind, seg))
            exists = kind == 'disc' or cfg['n'] == 0 or seg < cfg['n']
            if kind == 'seg' and cfg['n'] == 0:
                exists = False
            if not exists:
                d = 'd'
            if d == 'a':
                return 'ok'
            if d in ('n', 'N'):
                return 'nack'
            if d == 'i':
                return 'invalid'
            if d == 'S':
                clock[0] += 99
                return 'ok'
            t = clock[0]
            if late[0] is not None and t < late[0][0] < t + 100 and (kind == 'disc' or late[0][1] == seg):
                clock[0] = late[0][0]
                late[0] = None
                return 'ok'
            clock[0] = t + 100
            if d == 'L':
                late[0] = (t + 100.5, (cfg['k'] if cfg['n'] else 'U') if kind == 'disc' else seg)
            fails += 1
            if fails >= retry:
                return 'timeout'

    ys = []
    r = request('disc', None)
    if r != 'ok':
        return ys, r, reqs
    if cfg['n'] == 0:
        return ['U'], 'ok', reqs
    k = cfg['k']
    fin = final_of(cfg, k)          # the segment designated final, once any received segment has said so
    if k == 0:
        ys.append(0)
        if fin == 0:
            return ys, 'ok', reqs
        nxt = 1
    else:
        nxt = 0
    while True:
        r = request('seg', nxt)
        if r != 'ok':
            return ys, r, reqs
        ys.append(nxt)
        f = final_of(cfg, nxt)
        if f is not None:
            fin = f
        if fin is not None and nxt >= fin:
            return ys, 'ok', reqs
        nxt += 1


class Run:
    pass


def execute(cfg, decisions):
    loop = VLoop()
    out = Run()
    out.attempts = 0
    out.requests = []
    out.yields = []
    out.terminal = None
    out.seen_nonces = set()
    out.dup_nonce = False
    state = {'invalid': False}
    with loop, owned_env(loop):
        face = HFace()
        app = FRONTENDS['legacy'].make_app(face)
        loop.create_task(app.main_loop())
        loop.drain()
        base = enc.Name.from_str(PREFIX)
        dbase = base + [enc.Component.from_version(7)] if cfg.get('ver') else base
        form = cfg.get('form', 'str')
        name_arg = {'str': PREFIX, 'list': list(base), 'gen': (c for c in list(base)), 'bytes': bytes(enc.Name.to_bytes(base))}[form]

        def seg_data(seg):
            fb = final_of(cfg, seg)
            fbid = None if fb is None else bytes(enc.Component.from_segment(fb))
            if cfg['final'] == 'other-type':
                # the number of this very segment, but as a generic (not a segment) component: not the last name component
                fbid = bytes(enc.Component.from_number(seg, enc.Component.TYPE_GENERIC))
            mi = enc.MetaInfo(freshness_period=1000, final_block_id=fbid)
            return bytes(enc.make_data(dbase + [enc.Component.from_segment(seg)], mi, b'segment-%d' % seg, DigestSha256Signer()))

        def on_send(wire):
            r = ns.read_interest(wire)
            name = [bytes(c) for c in r['name']]
            i = out.attempts
            out.attempts += 1
            d = decisions[i] if i < len(decisions) else 'a'
            if name == [bytes(c) for c in base]:
                kind, seg = 'disc', None
            elif name[:-1] == [bytes(c) for c in dbase] and name[-1][0] == 0x32:
                kind, seg = 'seg', int.from_bytes(name[-1][2:], 'big')
            else:
                kind, seg = 'other', None
            out.requests.append({'kind': kind, 'seg': seg, 'cbp': r['cbp'], 'mbf': r['mbf'], 'lifetime': r['lifetime']})
            # a forwarder detects a repeated (name, nonce) pair as a loop and answers Nack(Duplicate)
            key = (tuple(name), r['nonce'])
            if key in out.seen_nonces:
                out.dup_nonce = True
                face.deliver(bytes(enc.make_network_nack(wire, 100)))
                return
            out.seen_nonces.add(key)
            if kind == 'other':
                return
            if kind == 'seg' and (cfg['n'] == 0 or seg >= cfg['n']):
                return
            if d == 'd':
                return
            if d in ('n', 'N'):
                nack = bytes(enc.make_network_nack(wire, 150 if d == 'n' else 100))
                if cfg.get('lp'):
                    top = ts.read_single(nack)
                    nack = ts.tlv(0x64, ts.tlv(0x51, out.attempts.to_bytes(8, 'big')) + nack[top.vstart:])
                face.deliver(nack)
                return
            if kind == 'disc':
                data = seg_data(cfg['k']) if cfg['n'] else bytes(enc.make_data(dbase, enc.MetaInfo(freshness_period=1000), b'whole-object', DigestSha256Signer()))
            else:
                data = seg_data(seg)
            state['invalid'] = d == 'i'
            if cfg.get('lp'):
                data = ts.tlv(0x64, ts.tlv(0x51, out.attempts.to_bytes(8, 'big')) + ts.tlv(0x50, data))
            if d in ('S', 'L'):
                # slow: one millisecond before the lifetime ends; late: half a millisecond after it ended
                loop.call_later(0.099 if d == 'S' else 0.1005, face.deliver, data)
                return
            face.deliver(data)
        face.on_send = on_send

        async def validator(name, sig):
            bad = state['invalid']
            state['invalid'] = False
            return not bad

        async def consumer():
            try:
                if cfg.get('dv'):
                    app.data_validator = validator
                    gen = segment_fetcher(app, name_arg, timeout=100, retry_times=cfg['retry'])
                else:
                    gen = segment_fetcher(app, name_arg, timeout=100, retry_times=cfg['retry'], validator=validator)
                async for content in gen:
                    out.yields.append(bytes(content))
                out.terminal = 'ok'
            except nt.InterestTimeout:
                out.terminal = 'timeout'
            except nt.InterestNack:
                out.terminal = 'nack'
            except nt.ValidationFailure:
                out.terminal = 'invalid'
            except BaseException as e:  # noqa
                out.terminal = f'error:{type(e).__name__}@{tb_where(e)}'
        async def slow_twin():
            # a second consumer of the same object on the same application, which does something else after every segment
            try:
                async for content in segment_fetcher(app, PREFIX, timeout=100, retry_times=cfg['retry'], validator=validator):
                    out.yields2.append(bytes(content))
                    await asyncio.sleep(0.005)
                out.terminal2 = 'ok'
            except BaseException as e:  # noqa
                out.terminal2 = f'error:{type(e).__name__}@{tb_where(e)}'
        out.yields2, out.terminal2 = [], None
        if cfg.get('twins'):
            loop.create_task(slow_twin())
        t = loop.create_task(consumer())
        loop.settle()
        out.done = t.done()
        out.failures = loop.task_failures()
        app.shutdown()
        loop.settle()
        out.steps = loop.steps
    return out


def judge(cfg, decisions, run):
    viol = []
    ys, term, reqs = reference(cfg, decisions)
    want = [b'whole-object' if y == 'U' else b'segment-%d' % y for y in ys]
    tag = f"n={cfg['n']}|k={cfg['k']}|final={cfg['final']}" + ('|versioned' if cfg.get('ver') else '') + (f"|name-as-{cfg['form']}" if cfg.get('form') else '') + ('|numbered-envelopes' if cfg.get('lp') else '') + ('|default-validator' if cfg.get('dv') else '') + ('|two-consumers' if cfg.get('twins') else '')
    if not run.done:
        viol.append(('C19|never-finishes', f'{tag}: fetch did not finish; decisions {decisions}'))
        return viol
    if cfg.get('twins'):
        # two consumers at once: each gets the whole object; what the producer sees in which order is not claimed
        for who, ys, term_ in (('first', run.yields, run.terminal), ('slow second', run.yields2, run.terminal2 if run.terminal2 in ('ok', None) else {'error:InterestTimeout': 'timeout'}.get(run.terminal2.split('@')[0], run.terminal2))):
            if ys != want or term_ != term:
                viol.append((f'C19|two-consumers|{"missing" if len(ys) < len(want) else "different"}',
                             f'{tag}: the {who} of two concurrent consumers of the same object yielded {[y.decode() for y in ys]} and ended {term_} (a single consumer: {term}), '
                             f'expected {[w.decode() for w in want]}'))
        for f in run.failures:
            viol.append((f"C19|task-error|{f['exception']}@{f['where']}", f'{tag}: {f}'))
        return viol
    if run.yields != want:
        kind = 'missing' if len(run.yields) < len(want) else ('extra' if len(run.yields) > len(want) else 'wrong-order')
        if run.yields[:len(want)] != want[:len(run.yields)]:
            kind = 'wrong-content'
        viol.append((f'C19|yields-{kind}', f'{tag} retry={cfg["retry"]} decisions {decisions}: yielded {[y.decode() for y in run.yields]}, '
                                            f'expected {[w.decode() for w in want]}'))
    if run.dup_nonce:
        viol.append(('C19|re-request-repeats-nonce', f'{tag} retry={cfg["retry"]} decisions {decisions}: a re-request carried the nonce of an earlier '
                                                      f'Interest with the same name (a forwarder answers that with Nack Duplicate)'))
    if run.terminal != term:
        viol.append((f'C19|terminal|got={run.terminal}|expected={term}', f'{tag} retry={cfg["retry"]} decisions {decisions}: fetch ended with '
                                                                        f'{run.terminal}, expected {term}'))
    got_reqs = [(r['kind'], r['seg']) for r in run.requests]
    if got_reqs != reqs:
        viol.append(('C19|requests', f'{tag} retry={cfg["retry"]} decisions {decisions}: producer saw {got_reqs}, expected {reqs}'))
    for i, r in enumerate(run.requests):
        if r['kind'] == 'disc' and not r['cbp']:
            viol.append(('C19|discovery-without-canbeprefix', f'{tag}'))
        if r['kind'] == 'seg' and r['cbp']:
            viol.append(('C19|segment-request-with-canbeprefix', f'{tag}'))
        if r['kind'] == 'other':
            viol.append(('C19|unexpected-interest', f'{tag}'))
        if r['lifetime'] != 100 or not r['mbf']:
            viol.append(('C19|interest-parameters', f'{tag}: lifetime {r["lifetime"]} must_be_fresh {r["mbf"]}'))
    for f in run.failures:
        viol.append((f"C19|task-error|{f['exception']}@{f['where']}", f'{tag}: {f}'))
    return viol


def explore_cfg(cfg, dbound, on_run):
    stack = [()]
    n = 0
    while stack:
        prefix = stack.pop()
        run = execute(cfg, list(prefix))
        n += 1
        on_run(prefix, run)
        used = sum((2 if d in 'SL' else 1) for d in prefix if d != 'a')     # a slow / late answer counts as two deviations
        if used < dbound:
            specials = sum(1 for d in prefix if d in 'nNi')
            for i in range(len(prefix), run.attempts):
                base = tuple(prefix) + ('a',) * (i - len(prefix))
                stack.append(base + ('d',))
                if specials == 0:
                    stack.append(base + ('n',))
                    stack.append(base + ('N',))
                    stack.append(base + ('i',))
                if used + 2 <= dbound and not any(d in 'SL' for d in prefix):
                    stack.append(base + ('S',))
                    stack.append(base + ('L',))
    return n


def plan(tier, seed):
    d = 4 if tier == 'quick' else 6
    units = [{'cfg': c, 'd': d} for c in configs()] + [{'cfg': c, 'd': min(d, 3)} for c in extra_configs()]
    return {
        'units': units,
        'rule': 'execution = (object size, discovery answer, final-block variant, retry limit, answer pattern); answer patterns = all '
                'assignments of {answer, drop, nack, invalid, slow answer (1 ms before the lifetime ends), late answer (0.5 ms after it ended, '
                'still delivered)} to request attempts with at most D non-default answers, at most one nack/invalid and at most one slow/late. Non-trivial = at least one non-default answer or a discovery answer other than segment 0.',
        'bounds': {'configs': len(units), 'segments': '0 (unsegmented), 1..4', 'retry_limits': [1, 2, 3], 'final_variants': FINALS,
                   'deviation_bound': d},
        'assumptions': ['a request for a segment the object does not have is never answered',
                        'final marker pointing at an earlier segment: the fetch ends after that segment', 'a final designation is remembered: it need not be repeated on the final segment itself'],
    }


def unit(arg):
    acc = Acc()
    cfg = arg['cfg']

    def on_run(prefix, run):
        acc.evaluations += 1
        acc.transitions += run.attempts + run.steps
        acc.observe([cfg, list(prefix), [y.decode() for y in run.yields], run.terminal])
        acc.outcome(f"n={cfg['n']}|{run.terminal}|yields={len(run.yields)}")
        acc.state((cfg['n'], cfg['k'], cfg['final'], cfg['retry'], cfg.get('ver'), cfg.get('form'), cfg.get('twins'), cfg.get('lp'), cfg.get('dv'), tuple(prefix), tuple(run.yields), run.terminal))
        if any(d != 'a' for d in prefix) or (cfg['k'] or 0) > 0:
            acc.nontrivial += 1
        for sig, what in judge(cfg, list(prefix), run):
            acc.violation(sig, what, {'cfg': cfg, 'decisions': list(prefix)})
        if acc.evaluations % 300 == 1:
            acc.sample({'cfg': cfg, 'answers_per_attempt': list(prefix), 'yielded': [y.decode() for y in run.yields], 'end': run.terminal})
    explore_cfg(cfg, 0 if cfg.get('twins') else arg['d'], on_run)
    acc.max_dev_completed = arg['d']
    return acc


def replay(case):
    run = execute(case['cfg'], case['decisions'])
    return [{'sig': s, 'what': w} for s, w in judge(case['cfg'], case['decisions'], run)]
