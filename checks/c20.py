"""
C20 - client configuration resolves with environment over file over platform default.

E-input on a virtual file system: client_conf.os / client_conf.open / platform.linux.os are replaced by a virtual FS
and environment owned by the harness.  Complete product of: presence of the three NDN_CLIENT_* variables x which of
the four candidate client.conf files exist (all 16 subsets, each file with distinguishable values) x file content
style (empty, comments only, one key, all keys, blanks around '=', ';' comments) x store-location kind (scheme only,
absolute existing, relative to the configuration file, relative to the working directory, missing) x platform default
locations existing or not.  default_face over a URI menu of all supported and several unsupported schemes.
Oracle: reference resolution function written from the statement.
"""
from __future__ import annotations

import itertools
import posixpath

import ndn.client_conf as cc
import ndn.platform.linux as plin
from ndn.transport.stream_face import UnixFace, TcpFace
from ndn.transport.udp_face import UdpFace

from mc.core import Acc

PROPERTY = 'C20'
HOME = '/home/u'
CANDS = [HOME + '/.ndn/client.conf', '/usr/local/etc/ndn/client.conf', '/opt/local/etc/ndn/client.conf', '/etc/ndn/client.conf']
DEF_PIB = HOME + '/.ndn'
DEF_TPM = HOME + '/.ndn/ndnsec-key-file'


class VPath:
    def __init__(self, vfs):
        self.vfs = vfs

    def exists(self, p):
        return p in self.vfs.files or p in self.vfs.dirs

    @staticmethod
    def expanduser(p):
        return p.replace('~', HOME, 1) if p.startswith('~') else p

    @staticmethod
    def expandvars(p):
        return p

    join = staticmethod(posixpath.join)
    dirname = staticmethod(posixpath.dirname)
    isabs = staticmethod(posixpath.isabs)
    basename = staticmethod(posixpath.basename)


class VOs:
    def __init__(self, files, dirs, env):
        self.files = dict(files)
        self.dirs = set(dirs)
        self.environ = dict(env)
        self.path = VPath(self)

    def getenv(self, k, d=None):
        return self.environ.get(k, d)


class VFile:
    def __init__(self, text):
        self.text = text

    def read(self):
        return self.text

    def __enter__(self):
        return self

    def __exit__(self, *a):
        return False

    def __iter__(self):
        return iter(self.text.splitlines(True))


class Recorder:
    def __init__(self, kind, *args):
        self.kind, self.args = kind, args


def with_vfs(vos, fn):
    old = (cc.os, getattr(cc, 'open', None), plin.os, cc.KeychainSqlite3, cc.TpmFile)

    def vopen(path, *a, **k):
        if path not in vos.files:
            raise FileNotFoundError(path)
        return VFile(vos.files[path])
    cc.os = vos
    cc.open = vopen
    plin.os = vos
    cc.KeychainSqlite3 = lambda path, tpm: Recorder('pib', path, tpm)
    cc.TpmFile = lambda path: Recorder('tpm', path)
    try:
        return fn()
    finally:
        cc.os, plin.os, cc.KeychainSqlite3, cc.TpmFile = old[0], old[2], old[3], old[4]
        if old[1] is None:
            del cc.open
        else:
            cc.open = old[1]


# -- file contents -----------------------------------------------------------------------------------------
def render(style, vals):
    """vals: dict key->value for this file (distinguishable per file)"""
    if style == 'empty':
        return '', {}
    if style == 'comments':
        return '; only comments\n# transport=unix:///nowhere.sock\n\n', {}
    if style == 'one-key':
        return f"transport={vals['transport']}\n", {'transport': vals['transport']}
    if style in ('no-transport', 'tpm-only', 'pib-only', 'no-pib'):
        keep = {'no-transport': ('pib', 'tpm'), 'tpm-only': ('tpm',), 'pib-only': ('pib',), 'no-pib': ('transport', 'tpm')}[style]
        sub = {k: v for k, v in vals.items() if k in keep}
        return ''.join(f'{k}={v}\n' for k, v in sub.items()), sub
    if style == 'all':
        return ''.join(f'{k}={v}\n' for k, v in vals.items()), dict(vals)
    if style == 'blanks':
        return ''.join(f'  {k}   =   {v}  \n' for k, v in vals.items()), dict(vals)
    if style == 'semicolon':
        return '; NDN client configuration\n' + ''.join(f';{k}=ignored\n{k}={v}\n' for k, v in vals.items()) + '; end\n', dict(vals)
    raise ValueError(style)


STYLES = ['empty', 'comments', 'one-key', 'all', 'blanks', 'semicolon', 'no-transport', 'tpm-only', 'pib-only', 'no-pib']
STORES = ['scheme-only', 'absolute', 'rel-conf', 'rel-cwd', 'missing', 'empty-value', 'abs-hash', 'abs-semicolon', 'abs-percent', 'abs-colon']
ODD = {'abs-hash': ' #2', 'abs-semicolon': ' ;old', 'abs-percent': '%b 100%', 'abs-colon': ':b'}      # existing directories with such names


def store_value(kind, which, tag):
    scheme = 'pib-sqlite3' if which == 'pib' else 'tpm-file'
    if kind == 'scheme-only':
        return scheme
    if kind == 'empty-value':
        return ''           # the variable / the key is there, with nothing in it: that is the value
    if kind == 'absolute':
        return f'{scheme}:/data/{which}-{tag}'
    if kind in ODD:
        return f'{scheme}:/data/{which}-{tag}{ODD[kind]}'
    if kind == 'rel-conf':
        return f'{scheme}:relc-{which}-{tag}'
    if kind == 'rel-cwd':
        return f'{scheme}:relw-{which}-{tag}'
    return f'{scheme}:/nowhere/{which}-{tag}'


def build_world(envmask, filemask, style, store, defaults_exist, old_sock):
    files, dirs = {}, set()
    filevals = {}
    for i, path in enumerate(CANDS):
        if filemask >> i & 1:
            tag = f'f{i}'
            vals = {'transport': f'tcp://file{i}.example:{7000 + i}', 'pib': store_value(store, 'pib', tag), 'tpm': store_value(store, 'tpm', tag)}
            text, present = render(style, vals)
            files[path] = text
            filevals[path] = present
            dirs.add(posixpath.dirname(path))
    env = {}
    envvals = {'transport': '' if store == 'empty-value' else 'udp://env.example:6000', 'pib': store_value(store, 'pib', 'env'), 'tpm': store_value(store, 'tpm', 'env')}
    for j, key in enumerate(('transport', 'pib', 'tpm')):
        if envmask >> j & 1:
            env[f'NDN_CLIENT_{key.upper()}'] = envvals[key]
    # existing store locations
    conf = next((p for p in CANDS if p in files), None)
    for tag in ['env'] + [f'f{i}' for i in range(4)]:
        for which in ('pib', 'tpm'):
            dirs.add(f'/data/{which}-{tag}')
            dirs.add(f'/data/{which}-{tag}/ndnsec-key-file')      # (a directory of that name inside a store location means nothing)
            dirs.add(f'/data/{which}-{tag}/pib.db')
            for odd in ODD.values():
                dirs.add(f'/data/{which}-{tag}{odd}')
            dirs.add(f'relw-{which}-{tag}')                 # exists relative to the working directory, as given
            if conf is not None:
                dirs.add(posixpath.join(posixpath.dirname(conf), f'relc-{which}-{tag}'))
    if defaults_exist:
        dirs.add(DEF_PIB)
        dirs.add(DEF_TPM)
    if old_sock == 'old-only':
        files['/run/nfd.sock'] = ''
    elif old_sock == 'both':
        files['/run/nfd.sock'] = ''
        files['/run/nfd/nfd.sock'] = ''
    elif old_sock == 'new-only':
        files['/run/nfd/nfd.sock'] = ''
    return VOs(files, dirs, env), filevals, conf


def reference(vos, filevals, conf):
    """value per key, and for pib/tpm (scheme, location or None when the statement is silent)"""
    default_transport = 'unix:///run/nfd/nfd.sock'
    if not vos.path.exists('/run/nfd/nfd.sock') and vos.path.exists('/run/nfd.sock'):
        default_transport = 'unix:///run/nfd.sock'
    defaults = {'transport': default_transport, 'pib': 'pib-sqlite3', 'tpm': 'tpm-file'}
    out = {}
    for key in ('transport', 'pib', 'tpm'):
        ek = f'NDN_CLIENT_{key.upper()}'
        if ek in vos.environ:
            v = vos.environ[ek]
        elif conf is not None and key in filevals[conf]:
            v = filevals[conf][key]
        else:
            v = defaults[key]
        if key == 'transport':
            out[key] = v
            continue
        scheme, _, loc = v.partition(':')
        dflt = DEF_PIB if key == 'pib' else DEF_TPM
        if loc and vos.path.exists(loc):
            res = loc
        elif loc and conf is not None and vos.path.exists(posixpath.join(posixpath.dirname(conf), loc)):
            res = posixpath.join(posixpath.dirname(conf), loc)
        elif vos.path.exists(dflt):
            res = dflt
        else:
            res = None      # neither the given nor the platform default location exists: the statement is silent
        out[key] = (scheme, res)
    return out


def run_conf(world):
    envmask, filemask, style, store, defaults_exist, old_sock = world
    vos, filevals, conf = build_world(*world)
    viol = []
    tag = f'store={store}|style={style}'
    try:
        got = with_vfs(vos, cc.read_client_conf)
    except Exception as e:  # noqa
        return [(f'C20|conf|raises:{type(e).__name__}|{tag}', f'read_client_conf raised {e!r} in world {world}')], None
    want = reference(vos, filevals, conf)
    src = {k: ('env' if f'NDN_CLIENT_{k.upper()}' in vos.environ else ('file' if conf and k in filevals[conf] else 'default')) for k in want}
    if got.get('transport') != want['transport']:
        viol.append((f'C20|conf|transport|source={src["transport"]}', f"transport {got.get('transport')!r} != {want['transport']!r} "
                                                                      f"(expected from {src['transport']}); world {world}"))
    for key in ('pib', 'tpm'):
        scheme, loc = want[key]
        g = got.get(key, '')
        gs, _, gl = g.partition(':')
        if gs != scheme:
            viol.append((f'C20|conf|{key}-scheme|source={src[key]}', f'{key} = {g!r}, expected scheme {scheme!r} (from {src[key]}); world {world}'))
        elif loc is not None and gl != loc:
            viol.append((f'C20|conf|{key}-location|store={store}|source={src[key]}', f'{key} = {g!r}, expected location {loc!r}; world {world}'))
    # default_keychain opens what was resolved
    try:
        kc = with_vfs(vos, lambda: cc.default_keychain(got['pib'], got['tpm']))
        if kc.kind != 'pib' or kc.args[0] != posixpath.join(got['pib'].partition(':')[2], 'pib.db') or kc.args[1].args[0] != got['tpm'].partition(':')[2]:
            viol.append(('C20|conf|default_keychain-paths', f'default_keychain opened {kc.args[0]!r} / {kc.args[1].args[0]!r} for {got}'))
    except ValueError as e:
        # an unknown (here: empty) scheme is refused
        if got['pib'].partition(':')[0] == 'pib-sqlite3' and got['tpm'].partition(':')[0] == 'tpm-file':
            viol.append(('C20|conf|default_keychain-raises:ValueError', f'{e!r} for {got}'))
    except Exception as e:  # noqa
        viol.append((f'C20|conf|default_keychain-raises:{type(e).__name__}', f'{e!r} for {got}'))
    return viol, (src['transport'], src['pib'], src['tpm'])


def conf_worlds():
    for envmask in range(8):
        for filemask in range(16):
            for style in STYLES:
                for store in STORES:
                    for defaults_exist in (True, False):
                        yield (envmask, filemask, style, store, defaults_exist, 'new-only')
    for old_sock in ('old-only', 'both', 'none', 'new-only'):
        for envmask in (0, 1):
            for filemask in (0, 1, 8):
                yield (envmask, filemask, 'all', 'scheme-only', True, old_sock)


# -- default_face ---------------------------------------------------------------------------------------------
FACE_URIS = [
    ('unix:///run/nfd/nfd.sock', ('unix', '/run/nfd/nfd.sock')), ('unix:/run/nfd/nfd.sock', ('unix', '/run/nfd/nfd.sock')), ('unix:///tmp/x.sock', ('unix', '/tmp/x.sock')),
    ('unix:///tmp/NDN-Runtime/User_A/Nfd.sock', ('unix', '/tmp/NDN-Runtime/User_A/Nfd.sock')),
    ('tcp://127.0.0.1', ('tcp', '127.0.0.1', 6363)), ('tcp://127.0.0.1:7000', ('tcp', '127.0.0.1', 7000)),
    ('tcp4://example.org:6363', ('tcp', 'example.org', 6363)), ('tcp4://example.org', ('tcp', 'example.org', 6363)),
    ('tcp6://[::1]:6363', ('tcp', '::1', 6363)), ('tcp6://[::1]', ('tcp', '::1', 6363)), ('tcp6://[2001:db8::2]:7000', ('tcp', '2001:db8::2', 7000)),
    ('udp://10.0.0.1', ('udp', '10.0.0.1', 6363)), ('udp4://10.0.0.1:7000', ('udp', '10.0.0.1', 7000)),
    ('udp6://[fe80::1]:6363', ('udp', 'fe80::1', 6363)), ('udp://host.example:56363', ('udp', 'host.example', 56363)),
    ('ws://example.org:9696', None), ('http://example.org', None), ('', None), ('unix4:///run/x.sock', None), ('tcps://a:1', None),
    ('tcp5://a:1', None), ('udplite://a:1', None), ('tcp46://a', None), ('udp-dev://a', None), ('ether://[01:00:5e:00:17:aa]', None),
    ('tcp', None), ('unixs:///x', None), ('wss://a/ws', None), ('dev://eth0', None),
]


def run_face(uri, want):
    try:
        f = cc.default_face(uri)
    except ValueError:
        if want is not None:
            return [(f'C20|face|refused-supported|{want[0]}', f'default_face({uri!r}) raised ValueError')]
        return []
    except Exception as e:  # noqa
        return [(f'C20|face|raises:{type(e).__name__}', f'default_face({uri!r}) raised {e!r}')]
    if want is None:
        return [(f'C20|face|unknown-scheme-accepted|{type(f).__name__}', f'default_face({uri!r}) returned a {type(f).__name__} instead of refusing')]
    kind = {UnixFace: 'unix', TcpFace: 'tcp', UdpFace: 'udp'}.get(type(f))
    if kind != want[0]:
        return [(f'C20|face|wrong-type|{want[0]}', f'default_face({uri!r}) returned {type(f).__name__}')]
    if kind == 'unix':
        if f.path != want[1]:
            return [('C20|face|unix-path', f'default_face({uri!r}).path = {f.path!r}')]
    elif (f.host, f.port) != (want[1], want[2]):
        return [(f'C20|face|address|{kind}', f'default_face({uri!r}) -> {f.host!r}:{f.port!r}, expected {want[1]!r}:{want[2]}')]
    return []


def plan(tier, seed):
    n = sum(1 for _ in conf_worlds())
    units = [{'kind': 'conf', 'lo': lo, 'hi': min(n, lo + 2000)} for lo in range(0, n, 2000)] + [{'kind': 'face'}]
    return {
        'units': units,
        'rule': 'configuration = (env presence mask, candidate-file existence mask, content style, store-location kind, platform defaults exist, '
                'socket layout); complete product; distinct by construction. Non-trivial = at least two sources (env / file / default) compete for '
                'some setting, or a store location that is not used as given.',
        'bounds': {'worlds': n, 'styles': STYLES, 'store_kinds': STORES, 'face_uris': len(FACE_URIS)},
        'assumptions': ['when neither the given nor the platform default store location exists the statement is silent: only the scheme is compared',
                        'Linux platform class'],
    }


def unit(arg):
    acc = Acc()
    acc.state_hashes = None
    if arg['kind'] == 'conf':
        for world in itertools.islice(conf_worlds(), arg['lo'], arg['hi']):
            viol, src = run_conf(world)
            acc.evaluations += 1
            acc.state_count += 1
            acc.transitions += 2
            if world[0] and world[1] or world[3] not in ('scheme-only', 'absolute'):
                acc.nontrivial += 1
            acc.outcome(f'conf|{src}')
            acc.observe([world, src, [v[0] for v in viol]])
            for sig, what in viol:
                acc.violation(sig, what, {'kind': 'conf', 'world': list(world)})
            if acc.evaluations % 500 == 1:
                acc.sample({'world(env,files,style,store,defaults,sock)': list(world), 'sources(transport,pib,tpm)': src})
    else:
        for uri, want in FACE_URIS:
            viol = run_face(uri, want)
            acc.evaluations += 1
            acc.state_count += 1
            acc.nontrivial += 1
            acc.outcome(f"face|{'refused' if want is None else want[0]}")
            acc.observe([uri, [v[0] for v in viol]])
            for sig, what in viol:
                acc.violation(sig, what, {'kind': 'face', 'uri': uri})
        acc.sample({'face_uris': [u for u, _ in FACE_URIS]})
    return acc


def replay(case):
    if case['kind'] == 'conf':
        viol, _ = run_conf(tuple(case['world']))
    else:
        want = dict(FACE_URIS)[case['uri']]
        viol = run_face(case['uri'], want)
    return [{'sig': s, 'what': w} for s, w in viol]
