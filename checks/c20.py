"""
C20 - client configuration resolves with environment over file over platform default.

E-input on a virtual file system: client_conf.os / client_conf.open / platform.linux.os are replaced by a virtual FS
and environment owned by the harness.  Complete product of: presence of the three NDN_CLIENT_* variables x which of
the four candidate client.conf files exist (all 16 subsets, each file with distinguishable values) x file content
style (empty, comments only, one key, all keys, blanks around '=', ';' comments) x store-location kind (scheme only,
absolute existing, relative to the configuration file, relative to the working directory, missing) x platform default
locations existing or not.  default_face over a URI menu of all supported and several unsupported schemes.
Oracle: reference resolution function written from the statement.
"""
from __future__ import annotations

import itertools
import posixpath

import ndn.client_conf as cc
import ndn.platform.linux as plin
from ndn.transport.stream_face import UnixFace, TcpFace
from ndn.transport.udp_face import UdpFace

from mc.core import Acc

PROPERTY = 'C20'
HOME = '/home/u'
CANDS = [HOME + '/.ndn/client.conf', '/usr/local/etc/ndn/client.conf', '/opt/local/etc/ndn/client.conf', '/etc/ndn/client.conf']
DEF_PIB = HOME + '/.ndn'
DEF_TPM = HOME + '/.ndn/ndnsec-key-file'


class VPath:
    def __init__(self, vfs):
        self.vfs = vfs

    def exists(self, p):
        return p in self.vfs.files or p in self.vfs.dirs

    def expanduser(self, p):
        return p.replace('~', self.vfs.home, 1) if p.startswith('~') else p

    @staticmethod
    def expandvars(p):
        return p

    join = staticmethod(posixpath.join)
    dirname = staticmethod(posixpath.dirname)
    isabs = staticmethod(posixpath.isabs)
    basename = staticmethod(posixpath.basename)


class VOs:
    def __init__(self, files, dirs, env, home=HOME):
        self.home = home
        self.files = dict(files)
        self.dirs = set(dirs)
        self.environ = dict(env)
        self.path = VPath(self)

    def getenv(self, k, d=None):
        return self.environ.get(k, d)


class VFile:
    def __init__(self, text):
        self.text = text

    def read(self):
        return self.text

    def __enter__(self):
        return self

    def __exit__(self, *a):
        return False

    def __iter__(self):
        return iter(self.text.splitlines(True))


class Recorder:
    def __init__(self, kind, *args):
        self.kind, self.args = kind, args


def with_vfs(vos, fn):
    old = (cc.os, getattr(cc, 'open', None), plin.os, cc.KeychainSqlite3, cc.TpmFile)

    def vopen(path, *a, **k):
        if path not in vos.files:
            raise FileNotFoundError(path)
        return VFile(vos.files[path])
    cc.os = vos
    cc.open = vopen
    plin.os = vos
    cc.KeychainSqlite3 = lambda path, tpm: Recorder('pib', path, tpm)
    cc.TpmFile = lambda path: Recorder('tpm', path)
    try:
        return fn()
    finally:
        cc.os, plin.os, cc.KeychainSqlite3, cc.TpmFile = old[0], old[2], old[3], old[4]
        if old[1] is None:
            del cc.open
        else:
            cc.open = old[1]


# -- file contents -----------------------------------------------------------------------------------------
def render(style, vals):
    """vals: dict key->value for this file (distinguishable per file)"""
    if style == 'empty':
        return '', {}
    if style == 'comments':
        return '; only comments\n# transport=unix:///nowhere.sock\n\n', {}
    if style == 'one-key':
        return f"transport={vals['transport']}\n", {'transport': vals['transport']}
    if style in ('no-transport', 'tpm-only', 'pib-only', 'no-pib'):
        keep = {'no-transport': ('pib', 'tpm'), 'tpm-only': ('tpm',), 'pib-only': ('pib',), 'no-pib': ('transport', 'tpm')}[style]
        sub = {k: v for k, v in vals.items() if k in keep}
        return ''.join(f'{k}={v}\n' for k, v in sub.items()), sub
    if style == 'all':
        return ''.join(f'{k}={v}\n' for k, v in vals.items()), dict(vals)
    if style == 'blanks':
        return ''.join(f'  {k}   =   {v}  \n' for k, v in vals.items()), dict(vals)
    if style == 'semicolon':
        return '; NDN client configuration\n' + ''.join(f';{k}=ignored\n{k}={v}\n' for k, v in vals.items()) + '; end\n', dict(vals)
    raise ValueError(style)


STYLES = ['empty', 'comments', 'one-key', 'all', 'blanks', 'semicolon', 'no-transport', 'tpm-only', 'pib-only', 'no-pib']
STORES = ['scheme-only', 'absolute', 'rel-conf', 'rel-cwd', 'missing', 'empty-value', 'abs-hash', 'abs-semicolon', 'abs-percent', 'abs-colon']
ODD = {'abs-hash': ' #2', 'abs-semicolon': ' ;old', 'abs-percent': '%b 100%', 'abs-colon': ':b'}      # existing directories with such names


def store_value(kind, which, tag):
    scheme = 'pib-sqlite3' if which == 'pib' else 'tpm-file'
    if kind == 'scheme-only':
        return scheme
    if kind == 'empty-value':
        return ''           # the variable / the key is there, with nothing in it: that is the value
    if kind == 'absolute':
        return f'{scheme}:/data/{which}-{tag}'
    if kind in ODD:
        return f'{scheme}:/data/{which}-{tag}{ODD[kind]}'
    if kind == 'rel-conf':
        return f'{scheme}:relc-{which}-{tag}'
    if kind == 'rel-cwd':
        return f'{scheme}:relw-{which}-{tag}'
    return f'{scheme}:/nowhere/{which}-{tag}'


def build_world(envmask, filemask, style, store, defaults_exist, old_sock, home=HOME):
    files, dirs = {}, set()
    filevals = {}
    cands = [home + '/.ndn/client.conf'] + CANDS[1:]
    hv = '' if home == HOME else 'v'       # a second user's files and stores carry other values
    for i, path in enumerate(cands):
        if filemask >> i & 1:
            tag = f'f{i}' + (hv if i == 0 else '')
            vals = {'transport': f'tcp://file{i}{hv if i == 0 else ""}.example:{7000 + i}', 'pib': store_value(store, 'pib', tag), 'tpm': store_value(store, 'tpm', tag)}
            text, present = render(style, vals)
            files[path] = text
            filevals[path] = present
            dirs.add(posixpath.dirname(path))
    env = {}
    envvals = {'transport': '' if store == 'empty-value' else 'udp://env.example:6000', 'pib': store_value(store, 'pib', 'env'), 'tpm': store_value(store, 'tpm', 'env')}
    for j, key in enumerate(('transport', 'pib', 'tpm')):
        if envmask >> j & 1:
            env[f'NDN_CLIENT_{key.upper()}'] = envvals[key]
    # existing store locations
    conf = next((p for p in cands if p in files), None)
    for tag in ['env', 'f0v'] + [f'f{i}' for i in range(4)]:
        for which in ('pib', 'tpm'):
            dirs.add(f'/data/{which}-{tag}')
            dirs.add(f'/data/{which}-{tag}/ndnsec-key-file')      # (a directory of that name inside a store location means nothing)
            dirs.add(f'/data/{which}-{tag}/pib.db')
            for odd in ODD.values():
                dirs.add(f'/data/{which}-{tag}{odd}')
            dirs.add(f'relw-{which}-{tag}')                 # exists relative to the working directory, as given
            if conf is not None:
                dirs.add(posixpath.join(posixpath.dirname(conf), f'relc-{which}-{tag}'))
    if defaults_exist:
        for h in (HOME, '/home/v'):             # every user has the default stores
            dirs.add(h + '/.ndn')
            dirs.add(h + '/.ndn/ndnsec-key-file')
    if old_sock == 'old-only':
        files['/run/nfd.sock'] = ''
    elif old_sock == 'both':
        files['/run/nfd.sock'] = ''
        files['/run/nfd/nfd.sock'] = ''
    elif old_sock == 'new-only':
        files['/run/nfd/nfd.sock'] = ''
    return VOs(files, dirs, env, home), filevals, conf


def reference(vos, filevals, conf):
    """value per key, and for pib/tpm (scheme, location or None when the statement is silent)"""
    default_transport = 'unix:///run/nfd/nfd.sock'
    if not vos.path.exists('/run/nfd/nfd.sock') and vos.path.exists('/run/nfd.sock'):
        default_transport = 'unix:///run/nfd.sock'
    defaults = {'transport': default_transport, 'pib': 'pib-sqlite3', 'tpm': 'tpm-file'}
    out = {}
    for key in ('transport', 'pib', 'tpm'):
        ek = f'NDN_CLIENT_{key.upper()}'
        if ek in vos.environ:
            v = vos.environ[ek]
        elif conf is not None and key in filevals[conf]:
            v = filevals[conf][key]
        else:
            v = defaults[key]
        if key == 'transport':
            out[key] = v
            continue
        scheme, _, loc = v.partition(':')
        dflt = vos.home + ('/.ndn' if key == 'pib' else '/.ndn/ndnsec-key-file')
        if loc and vos.path.exists(loc):
            res = loc
        elif loc and conf is not None and vos.path.exists(posixpath.join(posixpath.dirname(conf), loc)):
            res = posixpath.join(posixpath.dirname(conf), loc)
        elif vos.path.exists(dflt):
            res = dflt
        else:
            res = None      # neither the given nor the platform default location exists: the statement is silent
        out[key] = (scheme, res)
    return out


def compare_conf(got, vos, filevals, conf, world, tag):
    viol = []
    store = world[3]
    want = reference(vos, filevals, conf)
    src = {k: ('env' if f'NDN_CLIENT_{k.upper()}' in vos.environ else ('file' if conf and k in filevals[conf] else 'default')) for k in want}
    if got.get('transport') != want['transport']:
        viol.append((f'C20|conf|transport|source={src["transport"]}', f"transport {got.get('transport')!r} != {want['transport']!r} "
                                                                      f"(expected from {src['transport']}); world {world}"))
    for key in ('pib', 'tpm'):
        scheme, loc = want[key]
        g = got.get(key, '')
        gs, _, gl = g.partition(':')
        if gs != scheme:
            viol.append((f'C20|conf|{key}-scheme|source={src[key]}', f'{key} = {g!r}, expected scheme {scheme!r} (from {src[key]}); world {world}'))
        elif loc is not None and gl != loc:
            viol.append((f'C20|conf|{key}-location|store={store}|source={src[key]}', f'{key} = {g!r}, expected location {loc!r}; world {world}'))
    return viol, src, want


def run_conf(world):
    envmask, filemask, style, store, defaults_exist, old_sock = world[:6]
    vos, filevals, conf = build_world(*world)
    tag = f'store={store}|style={style}'
    try:
        got = with_vfs(vos, cc.read_client_conf)
    except Exception as e:  # noqa
        return [(f'C20|conf|raises:{type(e).__name__}|{tag}', f'read_client_conf raised {e!r} in world {world}')], None
    viol, src, want = compare_conf(got, vos, filevals, conf, world, tag)
    # default_keychain opens what was resolved
    try:
        kc = with_vfs(vos, lambda: cc.default_keychain(got['pib'], got['tpm']))
        if kc.kind != 'pib' or kc.args[0] != posixpath.join(got['pib'].partition(':')[2], 'pib.db') or kc.args[1].args[0] != got['tpm'].partition(':')[2]:
            viol.append(('C20|conf|default_keychain-paths', f'default_keychain opened {kc.args[0]!r} / {kc.args[1].args[0]!r} for {got}'))
    except ValueError as e:
        # an unknown (here: empty) scheme is refused
        if got['pib'].partition(':')[0] == 'pib-sqlite3' and got['tpm'].partition(':')[0] == 'tpm-file':
            viol.append(('C20|conf|default_keychain-raises:ValueError', f'{e!r} for {got}'))
    except Exception as e:  # noqa
        viol.append((f'C20|conf|default_keychain-raises:{type(e).__name__}', f'{e!r} for {got}'))
    return viol, (src['transport'], src['pib'], src['tpm'])


# -- histories: the configuration is resolved several times in one process while the environment, the files or the user change ----
HIST_WORLDS = [
    (0, 0, 'all', 'scheme-only', True, 'new-only'),              # nothing configured: platform defaults
    (1, 0, 'all', 'scheme-only', True, 'new-only'),              # transport from the environment
    (0, 1, 'all', 'absolute', True, 'new-only'),                 # the user's file
    (7, 1, 'all', 'absolute', True, 'new-only'),                 # environment over the user's file
    (0, 8, 'all', 'rel-conf', True, 'new-only'),                 # system-wide file, stores relative to it
    (6, 1, 'one-key', 'absolute', True, 'new-only'),             # stores from the environment, transport from the file
    (0, 1, 'all', 'absolute', True, 'new-only', '/home/v'),      # another user's file
    (0, 0, 'all', 'scheme-only', True, 'new-only', '/home/v'),   # another user, nothing configured
    (0, 9, 'no-transport', 'missing', True, 'old-only'),         # stores missing: default locations; old socket layout
]
ENTRY_POINTS = ['read', 'v2', 'v2-shared', 'v2-keychain', 'legacy']


def face_want(uri):
    from urllib.parse import urlsplit
    u = urlsplit(uri)
    if u.scheme == 'unix':
        return ('unix', u.path)
    return (u.scheme.rstrip('46'), u.hostname, u.port or 6363)


def face_got(f):
    kind = {UnixFace: 'unix', TcpFace: 'tcp', UdpFace: 'udp'}.get(type(f), type(f).__name__)
    return (kind, f.path) if kind == 'unix' else (kind, getattr(f, 'host', None), getattr(f, 'port', None))


def run_history(hist):
    """hist: list of (world index, entry point).  Objects the application keeps between calls (the dictionaries it passes as
    client_conf) live as long as the history.  Every step is judged against the reference for the world *of that step*."""
    import ndn.appv2 as v2
    import ndn.app as legacy
    viol = []
    shared = {'tpm': 'tpm-file:/data/tpm-arg'}                   # the application's own settings: no transport among them
    shared_kc = {'transport': 'tcp://arg.example:6363'}
    outs = []
    for step, (wi, ep) in enumerate(hist):
        world = HIST_WORLDS[wi]
        vos, filevals, conf = build_world(*world)
        vos.dirs.add('/data/tpm-arg')
        want = reference(vos, filevals, conf)
        tag = f'step={step + 1}|via={ep}'
        try:
            if ep == 'read':
                got = with_vfs(vos, cc.read_client_conf)
                v, _, _ = compare_conf(got, vos, filevals, conf, world, tag)
                viol += [(f'C20|history|{tag}|' + sig.split('|', 1)[1], f'history {hist}: ' + what) for sig, what in v]
                outs.append(sorted(got.items()))
            elif ep in ('v2', 'v2-shared'):
                app = with_vfs(vos, lambda: v2.NDNApp(client_conf=shared) if ep == 'v2-shared' else v2.NDNApp())
                g, w = face_got(app.face), face_want(want['transport'])
                outs.append(g)
                if g != w:
                    viol.append((f'C20|history|{tag}|face', f'history {hist}: the application built at step {step + 1} talks to {g}, the configuration in force '
                                                             f'at that moment says {w} (world {world})'))
            elif ep == 'v2-keychain':
                kc = with_vfs(vos, lambda: v2.NDNApp.default_keychain(shared_kc))
                g = (kc.args[0], kc.args[1].args[0])
                outs.append(g)
                for key, gv in (('pib', posixpath.dirname(g[0])), ('tpm', g[1])):
                    if want[key][1] is not None and gv != want[key][1]:
                        viol.append((f'C20|history|{tag}|{key}-location', f'history {hist}: default_keychain at step {step + 1} opened {gv!r} as {key}, the '
                                                                          f'configuration in force says {want[key][1]!r} (world {world})'))
            else:
                app = with_vfs(vos, lambda: legacy.NDNApp())
                g, w = face_got(app.face), face_want(want['transport'])
                kc = app.keychain
                gk = (posixpath.dirname(kc.args[0]), kc.args[1].args[0])
                outs.append((g, gk))
                if g != w:
                    viol.append((f'C20|history|{tag}|face', f'history {hist}: the application built at step {step + 1} talks to {g}, expected {w} (world {world})'))
                for key, gv in zip(('pib', 'tpm'), gk):
                    if want[key][1] is not None and gv != want[key][1]:
                        viol.append((f'C20|history|{tag}|{key}-location', f'history {hist}: the application built at step {step + 1} opened {gv!r} as {key}, '
                                                                          f'expected {want[key][1]!r} (world {world})'))
        except Exception as e:  # noqa
            viol.append((f'C20|history|{tag}|raises:{type(e).__name__}', f'history {hist}: {e!r} (world {world})'))
            outs.append(type(e).__name__)
    return viol, outs


def histories(tier):
    steps = [(w, e) for w in range(len(HIST_WORLDS)) for e in ENTRY_POINTS]
    for a in steps:
        for b in steps:
            yield [a, b]
    small = [(w, e) for w in ((1, 2, 6) if tier == 'quick' else (0, 1, 2, 3, 6)) for e in (('read', 'v2-shared', 'legacy') if tier == 'quick' else ENTRY_POINTS)]
    for a in small:
        for b in small:
            for c in small:
                yield [a, b, c]


# -- the real stores: which private-key store does a keychain opened through default_keychain use ---------------------------
def run_real_stores(seq):
    """seq: list of (pib index, tpm index): default_keychain on real directories, then one new identity each time; its private key
    must land in the private-key store named in *that* call."""
    import os
    import shutil
    import tempfile
    from mc.seams import owned_random
    viol = []
    root = tempfile.mkdtemp(prefix='c20-', dir='/dev/shm' if os.path.isdir('/dev/shm') else None)
    try:
        pibs = [os.path.join(root, f'pib{i}') for i in range(2)]
        tpms = [os.path.join(root, f'tpm{i}') for i in range(2)]
        for d in pibs + tpms:
            os.makedirs(d)
        from ndn.security.keychain.keychain_sqlite3 import KeychainSqlite3
        for i in range(2):
            # each public store was created next to "its" private-key store; the application may still name another one
            KeychainSqlite3.initialize(os.path.join(pibs[i], 'pib.db'), 'tpm-file', tpms[i])
        outs = []
        with owned_random(('c20', tuple(seq))):
            for step, (pi, ti) in enumerate(seq):
                before = [set(os.listdir(t)) for t in tpms]
                try:
                    kc = cc.default_keychain(f'pib-sqlite3:{pibs[pi]}', f'tpm-file:{tpms[ti]}')
                    kc.touch_identity(f'/c20/id{step}')
                    kc.shutdown() if hasattr(kc, 'shutdown') else None
                except Exception as e:  # noqa
                    viol.append((f'C20|real-stores|raises:{type(e).__name__}', f'sequence {seq}: step {step + 1} raised {e!r}'))
                    break
                grown = [len(set(os.listdir(t)) - b) for t, b in zip(tpms, before)]
                outs.append(grown)
                want = [1 if i == ti else 0 for i in range(2)]
                if grown != want:
                    viol.append((f'C20|real-stores|private-key-in-other-store|step={step + 1}', f'sequence {seq} of (public store, private-key store) pairs: the key created at '
                                 f'step {step + 1} added {grown} files to the two private-key stores, expected {want}'))
    finally:
        shutil.rmtree(root, ignore_errors=True)
    return viol, outs


def real_store_sequences():
    pairs = [(p, t) for p in range(2) for t in range(2)]
    for n in (1, 2, 3):
        yield from (list(x) for x in itertools.product(pairs, repeat=n))


def conf_worlds():
    for envmask in range(8):
        for filemask in range(16):
            for style in STYLES:
                for store in STORES:
                    for defaults_exist in (True, False):
                        yield (envmask, filemask, style, store, defaults_exist, 'new-only')
    for old_sock in ('old-only', 'both', 'none', 'new-only'):
        for envmask in (0, 1):
            for filemask in (0, 1, 8):
                yield (envmask, filemask, 'all', 'scheme-only', True, old_sock)


# -- default_face ---------------------------------------------------------------------------------------------
FACE_URIS = [
    ('unix:///run/nfd/nfd.sock', ('unix', '/run/nfd/nfd.sock')), ('unix:/run/nfd/nfd.sock', ('unix', '/run/nfd/nfd.sock')), ('unix:///tmp/x.sock', ('unix', '/tmp/x.sock')),
    ('unix:///tmp/NDN-Runtime/User_A/Nfd.sock', ('unix', '/tmp/NDN-Runtime/User_A/Nfd.sock')),
    ('tcp://127.0.0.1', ('tcp', '127.0.0.1', 6363)), ('tcp://127.0.0.1:7000', ('tcp', '127.0.0.1', 7000)),
    ('tcp4://example.org:6363', ('tcp', 'example.org', 6363)), ('tcp4://example.org', ('tcp', 'example.org', 6363)),
    ('tcp6://[::1]:6363', ('tcp', '::1', 6363)), ('tcp6://[::1]', ('tcp', '::1', 6363)), ('tcp6://[2001:db8::2]:7000', ('tcp', '2001:db8::2', 7000)),
    ('udp://10.0.0.1', ('udp', '10.0.0.1', 6363)), ('udp4://10.0.0.1:7000', ('udp', '10.0.0.1', 7000)),
    ('udp6://[fe80::1]:6363', ('udp', 'fe80::1', 6363)), ('udp://host.example:56363', ('udp', 'host.example', 56363)),
    ('ws://example.org:9696', None), ('http://example.org', None), ('', None), ('unix4:///run/x.sock', None), ('tcps://a:1', None),
    ('tcp5://a:1', None), ('udplite://a:1', None), ('tcp46://a', None), ('udp-dev://a', None), ('ether://[01:00:5e:00:17:aa]', None),
    ('tcp', None), ('unixs:///x', None), ('wss://a/ws', None), ('dev://eth0', None),
]


def run_face(uri, want):
    try:
        f = cc.default_face(uri)
    except ValueError:
        if want is not None:
            return [(f'C20|face|refused-supported|{want[0]}', f'default_face({uri!r}) raised ValueError')]
        return []
    except Exception as e:  # noqa
        return [(f'C20|face|raises:{type(e).__name__}', f'default_face({uri!r}) raised {e!r}')]
    if want is None:
        return [(f'C20|face|unknown-scheme-accepted|{type(f).__name__}', f'default_face({uri!r}) returned a {type(f).__name__} instead of refusing')]
    kind = {UnixFace: 'unix', TcpFace: 'tcp', UdpFace: 'udp'}.get(type(f))
    if kind != want[0]:
        return [(f'C20|face|wrong-type|{want[0]}', f'default_face({uri!r}) returned {type(f).__name__}')]
    if kind == 'unix':
        if f.path != want[1]:
            return [('C20|face|unix-path', f'default_face({uri!r}).path = {f.path!r}')]
    elif (f.host, f.port) != (want[1], want[2]):
        return [(f'C20|face|address|{kind}', f'default_face({uri!r}) -> {f.host!r}:{f.port!r}, expected {want[1]!r}:{want[2]}')]
    return []


def plan(tier, seed):
    n = sum(1 for _ in conf_worlds())
    units = [{'kind': 'conf', 'lo': lo, 'hi': min(n, lo + 2000)} for lo in range(0, n, 2000)] + [{'kind': 'face'}]
    nh = sum(1 for _ in histories(tier))
    units += [{'kind': 'hist', 'tier': tier, 'lo': lo, 'hi': min(nh, lo + 500)} for lo in range(0, nh, 500)]
    units += [{'kind': 'real', 'lo': lo, 'hi': lo + 21} for lo in range(0, 84, 21)]
    return {
        'units': units,
        'rule': 'configuration = (env presence mask, candidate-file existence mask, content style, store-location kind, platform defaults exist, '
                'socket layout); complete product; distinct by construction. Non-trivial = at least two sources (env / file / default) compete for '
                'some setting, or a store location that is not used as given.',
        'bounds': {'worlds': n, 'styles': STYLES, 'store_kinds': STORES, 'face_uris': len(FACE_URIS), 'histories': nh,
                   'history_alphabet': f'{len(HIST_WORLDS)} worlds (two users) x {ENTRY_POINTS}: all pairs, all triples over a sub-menu',
                   'real_store_sequences': 84},
        'assumptions': ['when neither the given nor the platform default store location exists the statement is silent: only the scheme is compared',
                        'Linux platform class'],
    }


def unit(arg):
    acc = Acc()
    acc.state_hashes = None
    if arg['kind'] == 'conf':
        for world in itertools.islice(conf_worlds(), arg['lo'], arg['hi']):
            viol, src = run_conf(world)
            acc.evaluations += 1
            acc.state_count += 1
            acc.transitions += 2
            if world[0] and world[1] or world[3] not in ('scheme-only', 'absolute'):
                acc.nontrivial += 1
            acc.outcome(f'conf|{src}')
            acc.observe([world, src, [v[0] for v in viol]])
            for sig, what in viol:
                acc.violation(sig, what, {'kind': 'conf', 'world': list(world)})
            if acc.evaluations % 500 == 1:
                acc.sample({'world(env,files,style,store,defaults,sock)': list(world), 'sources(transport,pib,tpm)': src})
    elif arg['kind'] == 'hist':
        for hist in itertools.islice(histories(arg['tier']), arg['lo'], arg['hi']):
            viol, outs = run_history(hist)
            acc.evaluations += 1
            acc.state_count += 1
            acc.transitions += len(hist)
            if len({w for w, _ in hist}) > 1:
                acc.nontrivial += 1
            acc.outcome('history|' + '>'.join(e for _, e in hist))
            acc.observe([hist, outs, [v[0] for v in viol]])
            for sig, what in viol:
                acc.violation(sig, what, {'kind': 'hist', 'hist': hist})
            if acc.evaluations % 250 == 1:
                acc.sample({'history(world index, entry point)': hist, 'observed': outs})
    elif arg['kind'] == 'real':
        for seq in itertools.islice(real_store_sequences(), arg['lo'], arg['hi']):
            viol, outs = run_real_stores(seq)
            acc.evaluations += 1
            acc.state_count += 1
            acc.transitions += len(seq)
            if len(set(seq)) > 1:
                acc.nontrivial += 1
            acc.outcome(f'real-stores|len={len(seq)}')
            acc.observe([seq, outs, [v[0] for v in viol]])
            for sig, what in viol:
                acc.violation(sig, what, {'kind': 'real', 'seq': seq})
        acc.sample({'real store sequence (pib, tpm)': [[0, 0], [0, 1]]})
    else:
        for uri, want in FACE_URIS:
            viol = run_face(uri, want)
            acc.evaluations += 1
            acc.state_count += 1
            acc.nontrivial += 1
            acc.outcome(f"face|{'refused' if want is None else want[0]}")
            acc.observe([uri, [v[0] for v in viol]])
            for sig, what in viol:
                acc.violation(sig, what, {'kind': 'face', 'uri': uri})
        acc.sample({'face_uris': [u for u, _ in FACE_URIS]})
    return acc


def replay(case):
    if case['kind'] == 'conf':
        viol, _ = run_conf(tuple(case['world']))
    elif case['kind'] == 'hist':
        viol, _ = run_history([tuple(x) for x in case['hist']])
    elif case['kind'] == 'real':
        viol, _ = run_real_stores([tuple(x) for x in case['seq']])
    else:
        want = dict(FACE_URIS)[case['uri']]
        viol = run_face(case['uri'], want)
    return [{'sig': s, 'what': w} for s, w in viol]
