"""Shared helpers for the Light VerSec checks (C11, C12, C13)."""
from __future__ import annotations

import lark

from ndn.app_support.light_versec import compiler as lvs_compiler
from ndn.app_support.light_versec import Checker, compile_lvs, SemanticError, LvsModelError  # noqa

from mc.ref import lvs_ref

FNS = {'$eq': lambda c, args: all(x == c for x in args), '$ne': lambda c, args: all(x != c for x in args),
       '$first': lambda c, args: len(args) > 0 and args[0] == c}        # (depends on the order of its arguments)


class _LarkCache:
    """the harness only caches the LALR table: lark.Lark(...) with the same arguments returns the same parser object"""

    def __init__(self, real):
        self._real = real
        self._cache = {}

    def Lark(self, grammar, **kw):
        key = (grammar, kw.get('parser'))
        if key not in self._cache:
            self._cache[key] = self._real.Lark(grammar, **kw)
        return self._cache[key]

    def __getattr__(self, item):
        return getattr(self._real, item)


def install_lark_cache():
    if not isinstance(lvs_compiler.lark, _LarkCache):
        lvs_compiler.lark = _LarkCache(lark)


def comp_name(tokens):
    return [lvs_ref.comp(t) for t in tokens]


def lib_matches(checker, name, ids):
    """set of (rule id, frozenset(bindings)) the library reports for the rules of the schema"""
    out = set()
    for rule_names, ctx in checker.match(name):
        b = frozenset((k, bytes(v)) for k, v in ctx.items())
        for rn in rule_names:
            rn = rn.split('#')
            rn = '#' + rn[1]          # '#_u#1' -> '#_u'
            if rn in ids:
                out.add((rn, b))
    return out


def claimable(schema):
    """every pattern named in a constraint (left side, option, function argument) occurs in that rule's own expanded name"""
    for r in schema:
        own = set()

        def collect(name, seen=()):
            for e in name:
                if e[0] == 'pat':
                    own.add(e[1])
                elif e[0] == 'ref' and e[1] not in seen:
                    for q in schema:
                        if q['id'] == e[1]:
                            collect([x for x in q['name'] if x[0] != 'pat' or not x[1].startswith('_')], seen + (e[1],))
        collect(r['name'])
        for cs in r.get('cons') or []:
            for pat, opts in cs:
                if pat not in own:
                    return False
                for o in opts:
                    if o[0] == 'pat' and o[1] not in own:
                        return False
                    if o[0] == 'fn':
                        for a in o[2]:
                            if a[0] == 'pat' and a[1] not in own:
                                return False
    return True
