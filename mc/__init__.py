"""
Process-wide ownership of the standard sources of nondeterminism.

Installed before any module of the library is imported (this package is imported first by `python -m mc.core`), so that
whichever way the library binds them - `import time; time.time()`, `from time import time`, `from random import randint`,
`secrets.randbits` - it binds these dispatchers.  A dispatcher answers from the *current* environment (mc.CUR, set by
mc.ndnenv.owned_env / mc.seams for the duration of one execution) and falls through to the real function otherwise.
"""
import random as _random
import secrets as _secrets
import time as _time

CUR = {}          # 'clock': object with time() in seconds; 'randint': f(a, b); 'randbits': f(n)
REAL = {'time': _time.time, 'time_ns': _time.time_ns, 'randint': _random.randint, 'randbits': _secrets.randbits}


def _d_time():
    c = CUR.get('clock')
    return c.time() if c is not None else REAL['time']()


def _d_time_ns():
    c = CUR.get('clock')
    return int(c.time() * 1e9) if c is not None else REAL['time_ns']()


def _d_randint(a, b):
    f = CUR.get('randint')
    return f(a, b) if f is not None else REAL['randint'](a, b)


def _d_randbits(n):
    f = CUR.get('randbits')
    return f(n) if f is not None else REAL['randbits'](n)


if _time.time is not _d_time and getattr(_time.time, '__name__', '') != '_d_time':
    _time.time = _d_time
    _time.time_ns = _d_time_ns
    _random.randint = _d_randint
    _secrets.randbits = _d_randbits
