"""
E-hist: explicit-state breadth-first search over operation histories.

A state is identified by the history that reaches it; `make_world()` builds fresh real objects and `world.apply(op)`
executes one operation on them and returns the oracle's violations for that step.  After replaying a history the
canonical form of the *complete* state (`world.canon()`) deduplicates: a state already seen is checked (the transition
into it is an execution like any other) but not expanded again.  Simplest-first alphabet order makes the first
counterexample a shortest one.
"""
from __future__ import annotations

from collections import deque


def explore_histories(make_world, alphabet, max_depth, roots, on_transition, expand_filter=None):
    """
    roots: iterable of initial histories (tuples of ops) - usually [()] or one per first operation (for sharding)
    on_transition(hist, key, violations, world_summary) is called once per executed history.
    Returns dict(states=distinct canonical states, transitions=histories executed, max_depth=deepest history, frontier_exhausted=bool)
    """
    seen = set()
    frontier = deque(tuple(r) for r in roots)
    transitions = 0
    deepest = 0
    while frontier:
        hist = frontier.popleft()
        w = make_world()
        viol = []
        skip = False
        try:
            for i, op in enumerate(hist):
                v = w.apply(op)
                if i == len(hist) - 1:
                    viol = v
                elif v:
                    # a violating prefix is never extended by this search; it can only be met in a root history handed in
                    # by the caller (sharding by first operations) - the shard owning the prefix reports it
                    skip = True
                    break
            if not skip:
                key = w.canon()
                summary = w.summary() if hasattr(w, 'summary') else None
        finally:
            w.close()
        if skip:
            continue
        transitions += 1
        deepest = max(deepest, len(hist))
        on_transition(hist, key, viol, summary)
        if viol or key in seen:
            continue
        seen.add(key)
        if len(hist) < max_depth:
            for op in alphabet:
                if expand_filter is None or expand_filter(hist, op):
                    frontier.append(hist + (op,))
    return {'states': len(seen), 'transitions': transitions, 'max_depth': deepest, 'frontier_exhausted': True}
