"""
Runner, accumulator, evidence writer and known-findings handling shared by all checks.

A check module (checks/cNN.py) provides:
    PROPERTY   = 'C03'
    TITLE      = one line
    def plan(tier, seed) -> dict with keys
          units:  list of picklable work-unit arguments (each is explored completely by `unit`)
          rule:   how cases are enumerated and what makes one non-trivial
          bounds: dict describing the bounds of this tier
          assumptions: list[str]
    def unit(arg) -> Acc          (runs in a worker process, on the real library code)
    def replay(case) -> list[Violation dict]   (re-executes one recorded case without the explorer)
"""
from __future__ import annotations

import argparse
import hashlib
import importlib
import json
import multiprocessing as mp
import os
import sys
import time
import traceback
from collections import Counter

VERIF = os.path.dirname(os.path.dirname(os.path.abspath(__file__)))
MAX_VIOL_PER_SIG = 3
MAX_SAMPLES = 6


def jhash(obj) -> str:
    return hashlib.sha1(json.dumps(obj, sort_keys=True, default=_json_default).encode()).hexdigest()


def _json_default(o):
    if isinstance(o, (bytes, bytearray, memoryview)):
        return {'hex': bytes(o).hex()}
    if isinstance(o, (set, frozenset)):
        return sorted(o, key=repr)
    if isinstance(o, tuple):
        return list(o)
    return repr(o)


class Acc:
    """What one work unit (or the whole run) covered."""

    def __init__(self):
        self.evaluations = 0          # executions / cases
        self.transitions = 0          # steps / library calls executed
        self.state_hashes: set | None = set()   # distinct fingerprints (E-sched / E-hist)
        self.state_count = 0          # used when hashes are not kept (E-input: distinct by construction)
        self.nontrivial = 0
        self.no_claim = 0
        self.outcomes = Counter()
        self.samples: list = []
        self.violations: dict[str, list] = {}
        self.notes = Counter()        # free counters (per sub-space sizes etc.)
        self.caps_hit: list[str] = []
        self._h = hashlib.sha1()      # observation digest for the determinism audit
        self.max_dev_completed = None

    # -- recording ---------------------------------------------------------------
    def observe(self, obs):
        """Feed one observation into the determinism digest."""
        self._h.update(json.dumps(obs, sort_keys=True, default=_json_default).encode())

    def outcome(self, key: str, n: int = 1):
        self.outcomes[key] += n

    def state(self, fp):
        if self.state_hashes is not None:
            self.state_hashes.add(fp if isinstance(fp, int) else int(hashlib.sha1(repr(fp).encode()).hexdigest()[:15], 16))

    def sample(self, s):
        if len(self.samples) < MAX_SAMPLES:
            self.samples.append(s)

    def violation(self, sig: str, what: str, case):
        lst = self.violations.setdefault(sig, [])
        if len(lst) < MAX_VIOL_PER_SIG:
            case = json.loads(json.dumps(case))   # cases must be plain JSON so that replays from file are identical
            lst.append({'sig': sig, 'what': what, 'case': case})

    @property
    def digest(self):
        return self._h.hexdigest()

    # -- transport ---------------------------------------------------------------
    def pack(self):
        return {
            'evaluations': self.evaluations, 'transitions': self.transitions,
            'state_hashes': self.state_hashes, 'state_count': self.state_count,
            'nontrivial': self.nontrivial, 'no_claim': self.no_claim,
            'outcomes': dict(self.outcomes), 'samples': self.samples,
            'violations': self.violations, 'notes': dict(self.notes), 'caps_hit': self.caps_hit,
            'digest': self.digest, 'max_dev_completed': self.max_dev_completed,
        }


class Total:
    def __init__(self):
        self.evaluations = 0
        self.transitions = 0
        self.state_hashes = set()
        self.state_count = 0
        self.nontrivial = 0
        self.no_claim = 0
        self.outcomes = Counter()
        self.samples = []
        self.violations: dict[str, list] = {}
        self.notes = Counter()
        self.caps_hit = []
        self.unit_digests = {}
        self.max_dev_completed = None

    def merge(self, idx, p):
        self.evaluations += p['evaluations']
        self.transitions += p['transitions']
        if p['state_hashes']:
            self.state_hashes |= p['state_hashes']
        self.state_count += p['state_count']
        self.nontrivial += p['nontrivial']
        self.no_claim += p['no_claim']
        self.outcomes.update(p['outcomes'])
        self.notes.update(p['notes'])
        for c in p['caps_hit']:
            if c not in self.caps_hit:
                self.caps_hit.append(c)
        for sig, lst in p['violations'].items():
            cur = self.violations.setdefault(sig, [])
            for v in lst:
                if len(cur) < MAX_VIOL_PER_SIG:
                    v = dict(v)
                    v['unit_idx'] = idx
                    cur.append(v)
        self.unit_digests[idx] = p['digest']
        self._samples_by_unit = getattr(self, '_samples_by_unit', {})
        self._samples_by_unit[idx] = p['samples']
        if p['max_dev_completed'] is not None:
            self.max_dev_completed = (p['max_dev_completed'] if self.max_dev_completed is None
                                      else min(self.max_dev_completed, p['max_dev_completed']))

    def pick_samples(self):
        by = getattr(self, '_samples_by_unit', {})
        idxs = sorted(by)
        out = []
        if idxs:
            for i in (idxs[0], idxs[len(idxs) // 2], idxs[-1]):
                for s in by[i][:2]:
                    if len(out) < MAX_SAMPLES and s not in out:
                        out.append(s)
        return out


# ------------------------------------------------------------------------------------
# worker side
# ------------------------------------------------------------------------------------
def _run_unit(job):
    modname, idx, arg = job
    try:
        mod = importlib.import_module(modname)
        acc = mod.unit(arg)
        return idx, acc.pack(), None
    except BaseException:  # noqa
        return idx, None, traceback.format_exc()


def _replay_case(job):
    modname, case = job
    try:
        mod = importlib.import_module(modname)
        return [a['sig'] for a in mod.replay(case)], None
    except BaseException:  # noqa
        return None, traceback.format_exc()


def _replay_signatures(modname, case):
    ctx = mp.get_context('fork')
    with ctx.Pool(1, initializer=_worker_init, maxtasksperchild=1) as pool:
        sigs, err = pool.apply(_replay_case, ((modname, case),))
    if err:
        print(err, file=sys.stderr)
    return sigs


def _unit_signatures(modname, idx, arg):
    """violation signatures of one work unit executed in a freshly forked process"""
    ctx = mp.get_context('fork')
    with ctx.Pool(1, initializer=_worker_init, maxtasksperchild=1) as pool:
        _, packed, err = pool.apply(_run_unit, ((modname, idx, arg),))
    if err or packed is None:
        return []
    return list(packed['violations'].keys())


def _worker_init():
    # keep workers quiet; the library logs through `logging`
    import logging
    logging.disable(logging.CRITICAL)
    import warnings
    warnings.simplefilter('ignore')


# ------------------------------------------------------------------------------------
# known findings
# ------------------------------------------------------------------------------------
def load_findings():
    path = os.path.join(VERIF, 'known_findings.json')
    if not os.path.exists(path):
        return []
    with open(path) as f:
        return json.load(f)['findings']


def finding_for(findings, prop, sig):
    for f in findings:
        if f['property'] == prop and f.get('status') == 'known' and f['signature'] == sig:
            return f
    return None


# ------------------------------------------------------------------------------------
# main
# ------------------------------------------------------------------------------------
def main(argv=None):
    ap = argparse.ArgumentParser()
    ap.add_argument('prop')
    ap.add_argument('--tier', default=os.environ.get('VERIF_TIER', 'quick'), choices=['quick', 'thorough'])
    ap.add_argument('--replay', default=None)
    ap.add_argument('--jobs', type=int, default=int(os.environ.get('VERIF_JOBS', '0')) or (os.cpu_count() or 4))
    ap.add_argument('--no-evidence', action='store_true')
    ap.add_argument('--only', default=None, help='substring filter on unit labels (debugging; evidence not written)')
    args = ap.parse_args(argv)
    prop = args.prop.upper()
    seed = int(os.environ.get('VERIF_SEED', '0') or 0)
    modname = f'checks.{prop.lower()}'
    _worker_init()
    mod = importlib.import_module(modname)

    if args.replay:
        return do_replay(mod, prop, args.replay)

    t0 = time.perf_counter()
    plan = mod.plan(args.tier, seed)
    units = list(plan['units'])
    if args.only:
        units = [u for u in units if args.only in repr(u)]
    n_units = len(units)
    # the seed rotates the order in which shards are handed out; results are order independent
    order = list(range(n_units))
    if n_units:
        k = seed % n_units
        order = order[k:] + order[:k]
    total = Total()
    errors = []
    jobs = [(modname, i, units[i]) for i in order]
    nproc = max(1, min(args.jobs, n_units))
    ctx = mp.get_context('fork')
    with ctx.Pool(nproc, initializer=_worker_init, maxtasksperchild=1) as pool:
        for idx, packed, err in pool.imap_unordered(_run_unit, jobs, chunksize=1):
            if err:
                errors.append((idx, err))
            else:
                total.merge(idx, packed)
        # determinism audit: re-run up to 3 units in the (already used) worker pool and in-process
        audit = []
        if n_units and not errors:
            pick = sorted({order[0], order[len(order) // 2], order[-1]})
            for idx, packed, err in pool.imap_unordered(_run_unit, [(modname, i, units[i]) for i in pick]):
                if err:
                    errors.append((idx, err))
                else:
                    audit.append((idx, packed['digest'] == total.unit_digests[idx], packed['evaluations']))
    wall = time.perf_counter() - t0

    if errors:
        for idx, err in errors[:3]:
            print(f'HARNESS-ERROR property={prop} unit={units[idx]!r}\n{err}', file=sys.stderr)
        print(f'HARNESS-ERROR property={prop}: {len(errors)} work unit(s) crashed', flush=True)
        return 2
    bad_audit = [a for a in audit if not a[1]]

    findings = load_findings()
    known_seen = []
    new_viol = []
    for sig, lst in sorted(total.violations.items()):
        f = finding_for(findings, prop, sig)
        if f is not None:
            known_seen.append(sig)
            print(f"KNOWN-FINDING: property={prop} {f['what']} [{sig}]")
        else:
            new_viol.append(lst[0])

    rc = 0
    replay_paths = []
    unconfirmed = []
    for v in new_viol:
        # confirm twice from the recorded case before reporting
        ok = True
        for _ in range(2):
            # each replay runs in a freshly forked child: the parent never executes library code, so state that the library
            # keeps per process (class-level caches, module-level defaults) cannot leak from one confirmation into the next
            again = _replay_signatures(modname, v['case'])
            if again is None or v['sig'] not in again:
                ok = False
        rdir = os.path.join(VERIF, 'replays', prop)
        os.makedirs(rdir, exist_ok=True)
        path = os.path.join(rdir, jhash([v['sig'], v['case']])[:16] + '.json')
        with open(path, 'w') as f:
            json.dump({'property': prop, 'signature': v['sig'], 'what': v['what'], 'case': v['case'],
                       'reproduced_twice': ok}, f, indent=1, default=_json_default)
        if not ok:
            # not a function of its recorded case alone: state surviving from an earlier execution of the same work unit.
            # A work unit always runs in a freshly forked process, so the unit itself is a replayable history: re-run it
            # twice; if the same signature comes back both times the violation is confirmed with the unit as its replay.
            uidx = v.get('unit_idx')
            again_ok = uidx is not None
            varying = False
            if again_ok:
                reruns = [set(_unit_signatures(modname, uidx, units[uidx]) or ()) for _ in range(2)]
                again_ok = all(v['sig'] in r for r in reruns)
                if not again_ok:
                    # Round 9: the unit violates the property on every run, but not with the same signature each time: what the library
                    # does there depends on something that is no input (object addresses reused by the allocator, seeded C13-23).
                    # On a correct tree no run of the unit shows anything, so "every fresh run of this unit shows a violation that no
                    # known finding covers" is reported as a violation of the unit, with that note.
                    fresh = [{g for g in r if finding_for(findings, prop, g) is None} for r in reruns]
                    if all(fresh):
                        again_ok = varying = True
            if again_ok:
                with open(path, 'w') as f:
                    json.dump({'property': prop, 'signature': v['sig'], 'what': v['what'], 'case': v['case'],
                               'reproduced_twice': False, 'unit': units[uidx], 'unit_reproduced_twice': True,
                               'note': ('every fresh run of the work unit violates the property, with signatures that vary from run to run: '
                                        'the behaviour depends on something that is not an input' if varying else
                                        'the recorded case alone does not reproduce it; the work unit (a fixed sequence of '
                                        'executions in a fresh process) does: state survives from an earlier execution')},
                              f, indent=1, default=_json_default)
                print(f"VIOLATION property={prop} replay={path}")
                print(f"  signature: {v['sig']}\n  what: {v['what']}\n  (reproduced by re-running its work unit in a fresh process; "
                      f"the single case alone does not show it)")
                replay_paths.append(path)
                rc = 1
                continue
            unconfirmed.append((v['sig'], path))
            continue
        print(f"VIOLATION property={prop} replay={path}")
        print(f"  signature: {v['sig']}\n  what: {v['what']}")
        replay_paths.append(path)
        rc = 1

    for sig, path in unconfirmed:
        print(f"NOTE property={prop}: {sig} was observed but did not reproduce from its recorded case alone ({path})")
    if unconfirmed and rc == 0:
        print(f"HARNESS-ERROR property={prop}: {len(unconfirmed)} violation(s) did not reproduce from their recorded cases "
              f"(state leaking between executions or uncaptured nondeterminism)")
        return 2
    if bad_audit and rc == 0:
        # nothing the oracle objects to, yet a re-executed work unit observed something else: nondeterminism nobody owns
        print(f'HARNESS-ERROR property={prop}: determinism audit failed for units {[units[a[0]] for a in bad_audit]!r}')
        return 2

    states = len(total.state_hashes) + total.state_count
    exhaustive = not total.caps_hit
    cov = {
        'states': states,
        'transitions': total.transitions,
        'traces_validated_against_impl': total.evaluations,
        'evaluations': total.evaluations,
        'distinct_nontrivial': total.nontrivial,
        'rule': plan.get('rule', ''),
        'samples': total.pick_samples() or [{'note': 'no sample recorded'}],
        'exhaustive': exhaustive,
        'caps_hit': total.caps_hit,
        'bounds': plan.get('bounds', {}),
        'distinct_outcomes': len(total.outcomes),
        'outcome_histogram': dict(total.outcomes.most_common(40)),
        'no_claim': total.no_claim,
        'work_units': n_units,
        'determinism_replays': [{'unit': repr(units[a[0]])[:120], 'identical': a[1], 'executions': a[2]} for a in audit],
        'known_findings_seen': known_seen,
        'sub_counts': dict(total.notes),
        'explanation': plan.get('explanation', ''),
    }
    if total.max_dev_completed is not None:
        cov['deviation_bound_completed'] = total.max_dev_completed
    ev = {
        'property_id': prop, 'tier': args.tier, 'seed': seed, 'level': 'model_checking',
        'coverage': cov, 'assumptions': plan.get('assumptions', []),
        'wall_s': round(wall, 2), 'violations': len(new_viol),
    }
    print(f'{prop} tier={args.tier} seed={seed} units={n_units} executions={total.evaluations} states={states} '
          f'transitions={total.transitions} nontrivial={total.nontrivial} distinct_outcomes={len(total.outcomes)} '
          f'no_claim={total.no_claim} known={len(known_seen)} violations={len(new_viol)} '
          f'exhaustive={exhaustive} wall={wall:.1f}s')
    if not args.no_evidence and not args.only:
        os.makedirs(os.path.join(VERIF, 'evidence'), exist_ok=True)
        with open(os.path.join(VERIF, 'evidence', f'{prop}.json'), 'w') as f:
            json.dump(ev, f, indent=1, default=_json_default)
    return rc


def do_replay(mod, prop, path):
    with open(path) as f:
        rec = json.load(f)
    case = rec['case']
    res = mod.replay(case)
    if not any(v['sig'] == rec.get('signature') for v in res) and rec.get('unit') is not None:
        # recorded as reproducible from its work unit only (state surviving between executions)
        ctx = mp.get_context('fork')
        with ctx.Pool(1, initializer=_worker_init, maxtasksperchild=1) as pool:
            _, packed, err = pool.apply(_run_unit, ((mod.__name__, 0, rec['unit']),))
        if packed is not None:
            for sig, lst in packed['violations'].items():
                if sig == rec.get('signature'):
                    res = res + [{'sig': sig, 'what': lst[0]['what']}]
    findings = load_findings()
    rc = 0
    if not res:
        print(f'replay of {path}: no violation observed')
    for v in res:
        f = finding_for(findings, prop, v['sig'])
        if f is not None:
            print(f"KNOWN-FINDING: property={prop} {f['what']} [{v['sig']}]")
        else:
            print(f"VIOLATION property={prop} replay={path}")
            print(f"  signature: {v['sig']}\n  what: {v['what']}")
            rc = 1
    return rc


if __name__ == '__main__':
    sys.exit(main())
