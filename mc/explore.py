"""
E-sched: stateless, deviation-bounded schedule exploration on top of VLoop.

An *execution* is identified by (script, choices).  The script is an ordered list of
environment events.  At every point where the ready queue is non-empty and the script has
a next event there is a choice: 0 = run the oldest ready callback (default), 1 = fire the
next script event now (a deviation: the environment pre-empts a chain of callbacks).
When the queue is empty the next event fires (no choice).  A `tick` event whose instant
has k>1 due timers offers the k!-1 other queueing orders as further deviations (k<=3).
After the script: drain / tick until nothing is left (horizon = step cap, hard error).

Executions are replayed from scratch on fresh objects for every choice list; a choice
that is out of range while replaying a recorded prefix is a hard error (divergence means
nondeterminism the harness does not own).
"""
from __future__ import annotations

import itertools
from .vloop import VLoop, HorizonExceeded


class Divergence(Exception):
    pass


class Run:
    """Record of one execution."""
    __slots__ = ('script', 'choices', 'points', 'trace', 'steps', 'obs')

    def __init__(self, script):
        self.script = script
        self.choices = []     # choice taken at each choice point
        self.points = []      # number of options at each choice point
        self.trace = []       # executed trace (scenario specific entries + fire/quiescent markers)
        self.steps = 0
        self.obs = None


def execute(scenario_factory, script, prefix=()):
    """Run one execution: follow `prefix` at the first len(prefix) choice points, 0 afterwards."""
    run = Run(script)
    loop = VLoop()
    with loop:
        sc = scenario_factory(loop, run.trace)
        try:
            _drive(sc, loop, run, script, prefix)
        finally:
            if hasattr(sc, 'close'):
                sc.close()
    return run


def _drive(sc, loop, run, script, prefix):
    if True:
        sc.setup()
        pos = 0

        def choose(nopts):
            i = len(run.choices)
            if i < len(prefix):
                c = prefix[i]
                if c >= nopts:
                    raise Divergence(f'choice {c} out of range {nopts} at point {i} (script {script!r}, prefix {prefix!r})')
            else:
                c = 0
            run.choices.append(c)
            run.points.append(nopts)
            return c

        while pos < len(script):
            ev = script[pos]
            if loop.ready_len() > 0:
                c = choose(2)
                if c == 0:
                    loop.run_one()
                    if loop.ready_len() == 0:
                        run.trace.append(('quiescent',))
                    continue
            # fire the event
            pos += 1
            if isinstance(ev, (tuple, list)) and ev[0] == 't' and ev[1] is not None:
                # advance the clock by exactly ev[1] ms; timers that fall due on the way are queued in deadline order
                loop.advance_to_us(loop.us + int(ev[1] * 1000))
                run.trace.append(('fire', 'tick', loop.us, -2))
            elif ev == 't' or (isinstance(ev, (tuple, list)) and ev[0] == 't'):
                nxt = loop.next_timer_us()
                if nxt is None:
                    run.trace.append(('fire', 'tick-noop', loop.us))
                    continue
                loop.us = nxt
                due = loop.due_timers()
                order = None
                if 1 < len(due) <= 3:
                    perms = list(itertools.permutations(range(len(due))))
                    c = choose(len(perms))
                    order = perms[c]
                    due = [due[i] for i in order]
                for h in due:
                    loop._ready.append(h)
                run.trace.append(('fire', 'tick', loop.us, len(due)))
            else:
                run.trace.append(('fire', ev, loop.us))
                sc.fire(ev)
            if loop.ready_len() == 0:
                run.trace.append(('quiescent',))
        # run to completion
        n_ticks = 0
        while True:
            if loop.drain():
                run.trace.append(('quiescent',))
            nxt = loop.next_timer_us()
            if nxt is None:
                break
            loop.advance_to_us(nxt)
            run.trace.append(('fire', 'tick', loop.us, -1))
            n_ticks += 1
            if n_ticks > 5000:
                raise HorizonExceeded('tick cap 5000 hit after script')
        run.obs = sc.finish()
        run.steps = loop.steps


def explore(scenario_factory, script, dbound, on_run):
    """All executions of `script` with at most `dbound` deviations. Calls on_run(run) for each.
    Returns number of executions."""
    n = 0
    stack = [()]
    while stack:
        prefix = stack.pop()
        run = execute(scenario_factory, script, prefix)
        if tuple(run.choices[:len(prefix)]) != tuple(prefix):
            raise Divergence(f'prefix not reproduced: {prefix!r} vs {run.choices!r}')
        n += 1
        on_run(run)
        used = sum(1 for c in prefix if c)
        if used + 1 <= dbound:
            for i in range(len(run.points) - 1, len(prefix) - 1, -1):
                for alt in range(1, run.points[i]):
                    stack.append(tuple(run.choices[:i]) + (alt,))
    return n


def sub_multiset_orderings(alphabet, max_len, min_len=0, valid=None):
    """All orderings of all sub-multisets of `alphabet` (a list; equal items are interchangeable)
    with min_len <= length <= max_len.  `valid(seq)` filters prefixes (must be prefix-closed)."""
    from collections import Counter
    avail = Counter(alphabet)
    keys = sorted(avail, key=lambda k: alphabet.index(k))
    out = []

    def rec(seq):
        if len(seq) >= min_len:
            out.append(tuple(seq))
        if len(seq) == max_len:
            return
        for k in keys:
            if avail[k] > 0:
                seq.append(k)
                if valid is None or valid(seq):
                    avail[k] -= 1
                    rec(seq)
                    avail[k] += 1
                seq.pop()
    rec([])
    return out
