"""
Bounded grammar of Light VerSec schemas (programs) for C11/C12/C13, enumerated completely in a fixed order.

A schema is a list of up to K rules; rule k gets a fresh id (#r, #s, #t), or redefines an earlier id, or is a temporary
rule (#_u).  Names have 1..Ln elements over {"a", x, y, _t, reference to an earlier non-temporary rule}.  A rule has
0..S constraint sets of 1..T terms; the left side is a pattern in scope (a pattern of the own name, an inherited one, a
temporary one), the options are drawn from a menu of literal / pattern / user-function options.
"""
from __future__ import annotations

import itertools

IDS = ['#r', '#s', '#t']
OPTION_MENU = [
    [['lit', 'a']], [['pat', 'x']], [['pat', 'y']], [['fn', '$eq', [['lit', 'a']]]], [['fn', '$eq', [['pat', 'x']]]],
    [['lit', 'a'], ['lit', 'b']], [['lit', 'b'], ['pat', 'x']], [['pat', 'x'], ['lit', 'b']], [['pat', 'x'], ['pat', 'y']],
    [['pat', 'y'], ['fn', '$eq', [['lit', 'a']]]],
]
OPTION_MENU_SMALL = [[['lit', 'a']], [['pat', 'x']], [['lit', 'a'], ['lit', 'b']], [['fn', '$eq', [['pat', 'y']]]],
                     [['fn', '$eq', [['pat', 'x']]]], [['fn', '$eq', [['lit', 'a']]]], [['pat', 'x'], ['lit', 'b']],
                     [['pat', 'x'], ['pat', 'y']]]


def names(refs, max_len, elems=None):
    base = elems or [['lit', 'a'], ['pat', 'x'], ['pat', 'y'], ['pat', '_t']]
    menu = base + [['ref', r] for r in refs]
    for n in range(1, max_len + 1):
        for tup in itertools.product(menu, repeat=n):
            yield [list(e) for e in tup]


def patterns_in_scope(name, schema):
    """pattern identifiers that a constraint of a rule with this name may sensibly mention (own, inherited, temporary)"""
    out = []

    def add(p):
        if p not in out:
            out.append(p)
    for e in name:
        if e[0] == 'pat':
            add(e[1])
        elif e[0] == 'ref':
            for r in schema:
                if r['id'] == e[1]:
                    for p in patterns_in_scope(r['name'], schema):
                        if not p.startswith('_'):
                            add(p)
    return out


def constraint_variants(name, schema, level):
    """list of 'cons' values for a rule with this name"""
    pats = patterns_in_scope(name, schema)
    out = [[]]
    if not pats:
        return out
    menu = OPTION_MENU if level >= 2 else OPTION_MENU_SMALL
    terms = []
    for p in pats:
        for opts in menu:
            if any(o == ['pat', p] for o in opts):
                continue
            terms.append([p, opts])
    for t in terms:
        out.append([[t]])                       # one set, one term
    if level >= 1:
        for t1, t2 in itertools.combinations(terms[:6], 2):
            if t1[0] != t2[0]:
                out.append([[t1, t2]])          # one set, two terms
        for t1, t2 in itertools.combinations(terms[:5], 2):
            out.append([[t1], [t2]])            # two alternative sets
        # alternatives on the same pattern that differ only in the kind / argument of the option
        for pp in pats:
            same = [t for t in terms if t[0] == pp]
            for t1, t2 in itertools.combinations(same, 2):
                if [[t1], [t2]] not in out:
                    out.append([[t1], [t2]])
    return out


def schemas(tier):
    """deterministic complete enumeration of the bounded grammar (without signing relations)"""
    lvl = 1 if tier == 'quick' else 2
    # one rule
    for nm in names([], 3):
        for cons in constraint_variants(nm, [], lvl):
            yield [{'id': '#r', 'name': nm, 'cons': cons, 'sign': []}]
    # two rules: the first one short, the second refers to it (also twice), redefines it, or is independent / temporary
    firsts = []
    for nm in names([], 2):
        for cons in constraint_variants(nm, [], 0 if tier == 'quick' else 1):
            firsts.append({'id': '#r', 'name': nm, 'cons': cons, 'sign': []})
    for r1 in firsts:
        for rid in ('#s', '#r', '#_u'):
            for nm in names(['#r'] if rid != '#r' else [], 2 if tier == 'quick' else 3):
                if rid == '#s' and not any(e[0] == 'ref' for e in nm) and tier == 'quick':
                    continue            # independent second rules add little: thorough only
                for cons in constraint_variants(nm, [r1], 0 if tier == 'quick' else 1):
                    yield [r1, {'id': rid, 'name': nm, 'cons': cons, 'sign': []}]
    # three rules: #r, a rule using #r, then a second definition of #r *after* its use (all definitions are alternatives
    # wherever they stand in the text)
    for r1 in firsts:
        if r1['cons'] or (len(r1['name']) > 1 and tier == 'quick'):
            continue
        for nm2 in names(['#r'], 2):
            if not any(e[0] == 'ref' for e in nm2):
                continue
            r2 = {'id': '#s', 'name': nm2, 'cons': [], 'sign': []}
            for nm3 in names([], 2):
                if nm3 == r1['name']:
                    continue
                yield [r1, r2, {'id': '#r', 'name': nm3, 'cons': [], 'sign': []}]
    # three rules: chain of references r <- s <- t with short names, no extra constraints on s, t beyond one term
    for r1 in firsts:
        if len(r1['name']) > 1 and tier == 'quick':
            continue
        for nm2 in names(['#r'], 2):
            if not any(e[0] == 'ref' for e in nm2):
                continue
            r2 = {'id': '#s', 'name': nm2, 'cons': [], 'sign': []}
            for nm3 in names(['#r', '#s'], 2):
                if not any(e == ['ref', '#s'] for e in nm3):
                    continue
                for cons in constraint_variants(nm3, [r1, r2], 0):
                    yield [r1, r2, {'id': '#t', 'name': nm3, 'cons': cons, 'sign': []}]


def query_names(max_len):
    comps = ['a', 'b', 'c']
    for n in range(0, max_len + 1):
        for tup in itertools.product(comps, repeat=n):
            yield tup


def families():
    """Further bounded sub-grammars, each enumerated completely, for feature *combinations* the main grammar reaches only in the
    thorough tier or not at all:
      T  temporaries constrained in an embedded rule and in the embedding rule (after another expansion of the embedded rule),
         also two constraints on one temporary in one set;
      F  user functions with two arguments of every kind combination, two functions;
      S  sibling rules that reach the same node and go on with the same / different patterns whose function constraints differ only
         in the function or in the arguments; optionally one rule signing the other."""
    L = lambda x: ['lit', x]            # noqa
    P = lambda x: ['pat', x]            # noqa
    # -- T
    inner_cons = [[], [[['_t', [L('a')]]]], [[['_t', [L('b')]]]], [[['_t', [L('a'), L('b')]]]]]
    outer_names = [[P('_t'), ['ref', '#r']], [P('_u'), ['ref', '#r']], [['ref', '#r'], P('_t')], [P('_t'), ['ref', '#r'], P('_t')]]
    outer_opts = [[L('a')], [L('b')], [L('a'), L('b')], [L('c'), L('a')]]
    for ic in inner_cons:
        r1 = {'id': '#r', 'name': [L('a'), P('_t')], 'cons': ic, 'sign': []}
        for mid in (None, [['ref', '#r'], L('a')], [L('b'), ['ref', '#r']]):
            r2 = [] if mid is None else [{'id': '#s', 'name': mid, 'cons': [], 'sign': []}]
            for on in outer_names:
                tp = on[0][1] if on[0][0] == 'pat' else on[-1][1]
                for oo in outer_opts:
                    yield [r1] + r2 + [{'id': '#t', 'name': on, 'cons': [[[tp, oo]]], 'sign': []}]
                if mid is not None:
                    # ... and through the middle rule (r <- s <- t), with and without a constraint of its own
                    via = [['ref', '#s'] if e == ['ref', '#r'] else e for e in on]
                    yield [r1] + r2 + [{'id': '#t', 'name': via, 'cons': [], 'sign': []}]
                    yield [r1] + r2 + [{'id': '#t', 'name': via, 'cons': [[[tp, outer_opts[2]]]], 'sign': []}]
    for ic in inner_cons[1:]:
        # the shortest embedded rule: one constrained temporary, reached through a pure alias
        r1 = {'id': '#r', 'name': [P('_t')], 'cons': ic, 'sign': []}
        for mid in ([['ref', '#r']], [P('x'), ['ref', '#r']]):
            for on, oc in (([P('_t'), ['ref', '#s']], []), ([P('_t'), ['ref', '#s']], [[['_t', [L('a'), L('b')]]]]),
                           ([P('_u'), ['ref', '#s']], [[['_u', [L('b')]]]])):
                yield [r1, {'id': '#s', 'name': mid, 'cons': [], 'sign': []}, {'id': '#t', 'name': on, 'cons': oc, 'sign': []}]
    for o1, o2 in itertools.product([[L('a')], [L('b')], [P('x')], [L('a'), L('b')], [['fn', '$eq', [P('x')]]]], repeat=2):
        if o1 != o2:
            yield [{'id': '#r', 'name': [P('x'), P('_t'), L('a')], 'cons': [[['_t', o1], ['_t', o2]]], 'sign': []}]
    # -- F
    args = [L('a'), L('b'), P('x')]
    for fn in ('$eq', '$ne', '$first'):
        for a1, a2 in itertools.product(args, repeat=2):
            yield [{'id': '#r', 'name': [P('x'), P('y')], 'cons': [[['y', [['fn', fn, [a1, a2]]]]]], 'sign': []}]
            yield [{'id': '#r', 'name': [P('x'), P('_t')], 'cons': [[['_t', [['fn', fn, [a1, a2]]]]]], 'sign': []}]
        for a1, a2, a3 in itertools.product(args, repeat=3):
            if len({repr(a1), repr(a2), repr(a3)}) > 1:
                yield [{'id': '#r', 'name': [P('x'), P('y')], 'cons': [[['y', [['fn', fn, [a1, a2, a3]]]]]], 'sign': []}]
    # -- V: sibling literal components of different lengths at one position (value edges of one node), in every order of definition:
    #       the octets of the shorter one may sort after those of the longer one ("b" after "ab") while its encoding sorts before
    lits = ['a', 'b', 'ab', 'ba', 'aab']
    for k in (2, 3):
        for sub in itertools.permutations(lits, k):
            if k == 3 and list(sub) != sorted(sub) and list(sub) != sorted(sub, reverse=True):
                continue
            yield [{'id': f'#v{i}', 'name': [L(m), P('x')], 'cons': [], 'sign': []} for i, m in enumerate(sub)]
            yield [{'id': f'#v{i}', 'name': [P('x'), L(m)], 'cons': [], 'sign': []} for i, m in enumerate(sub)]
    # -- S
    calls = [['fn', '$eq', [L('a')]], ['fn', '$eq', [L('b')]], ['fn', '$ne', [L('a')]], ['fn', '$eq', [P('x')]], ['fn', '$ne', [P('x')]],
             ['fn', '$eq', [L('a'), P('x')]], ['fn', '$eq', [L('b'), P('x')]]]
    for c1, c2 in itertools.product(calls, repeat=2):
        if c1 == c2:
            continue
        for p2 in ('y', 'z'):
            for signs in ([], ['#r']):
                yield [{'id': '#r', 'name': [P('x'), P('y'), L('a')], 'cons': [[['y', [c1]]]], 'sign': []},
                       {'id': '#s', 'name': [P('x'), P(p2), L('b')], 'cons': [[[p2, [c2]]]], 'sign': signs}]
                # ... and with nothing after the constrained pattern: the two rules are different name patterns of the same shape
                yield [{'id': '#r', 'name': [L('a'), P('x'), P('y')], 'cons': [[['y', [c1]]]], 'sign': []},
                       {'id': '#s', 'name': [L('a'), P('x'), P(p2)], 'cons': [[[p2, [c2]]]], 'sign': signs}]
