"""
Harness-side environment for running the real python-ndn front-ends on VLoop:
a Face whose input/output the harness owns, ownership of clocks and nonces, and thin
adapters so that one scenario can drive both `ndn.appv2.NDNApp` and `ndn.app.NDNApp`.
"""
from __future__ import annotations

import asyncio
import contextlib
import hashlib

import ndn.utils as ndn_utils
import ndn.encoding as enc
from ndn.transport.face import Face
from ndn import types as ndn_types

from .vloop import VLoop, FakeTime


class Counter32:
    def __init__(self, seed=0):
        self.n = seed

    def randint(self, a, b):
        self.n += 1
        h = int.from_bytes(hashlib.sha256(b'nonce%d' % self.n).digest()[:8], 'big')
        return a + h % (b - a + 1)


@contextlib.contextmanager
def owned_env(loop: VLoop, seed: int = 0):
    """Own utils.timestamp() (virtual clock) and nonce generation for the duration of an execution."""
    old_time = ndn_utils.time
    old_rand = ndn_utils.randint
    ndn_utils.time = FakeTime(loop)
    ndn_utils.randint = Counter32(seed).randint
    try:
        yield
    finally:
        ndn_utils.time = old_time
        ndn_utils.randint = old_rand


class HFace(Face):
    """A transport whose both ends are held by the harness.  Incoming packets are handed to the
    application exactly the way StreamFace.run / UdpFace do it: one task per packet."""

    def __init__(self, trace=None, local=True):
        super().__init__()
        self.sent: list[bytes] = []
        self.trace = trace
        self._closed: asyncio.Future | None = None
        self.local = local
        self.rx_tasks = []
        self.on_send = None     # optional hook: callable(wire)

    async def open(self):
        self.running = True
        self._closed = asyncio.get_running_loop().create_future()

    def shutdown(self):
        self.running = False
        if self._closed is not None and not self._closed.done():
            self._closed.set_result(True)

    def send(self, data):
        b = bytes(data)
        self.sent.append(b)
        if self.on_send is not None:
            self.on_send(b)

    async def run(self):
        await self._closed

    def isLocalFace(self):
        return self.local

    # harness side
    def deliver(self, wire: bytes, typ=None, label=None):
        if typ is None:
            typ, _ = enc.parse_tl_num(wire)
        loop = asyncio.get_running_loop()

        async def rx():
            if self.trace is not None:
                self.trace.append(('rx', label, loop.us))
            await self.callback(typ, wire)
        t = loop.create_task(rx())
        self.rx_tasks.append(t)
        return t


# -- front-end adapters ------------------------------------------------------------------
class V2:
    name = 'v2'

    @staticmethod
    def make_app(face):
        from ndn import appv2
        return appv2.NDNApp(face=face)

    @staticmethod
    def pit(app):
        return getattr(app, '_pit', None)

    @staticmethod
    def fib(app):
        return getattr(app, '_fib', None)

    @staticmethod
    def express(app, name, validator=None, **kw):
        from ndn import appv2
        return app.express(name, validator or appv2.pass_all, **kw)

    @staticmethod
    def result(res):
        name, content, ctx = res
        return name, content

    @staticmethod
    def accept_validator():
        from ndn import appv2
        return appv2.pass_all


class Legacy:
    name = 'legacy'

    @staticmethod
    def make_app(face):
        from ndn import app as app1
        from ndn.security import KeychainDigest
        return app1.NDNApp(face=face, keychain=KeychainDigest())

    @staticmethod
    def pit(app):
        return getattr(app, '_int_tree', None)

    @staticmethod
    def fib(app):
        return getattr(app, '_prefix_tree', None)

    @staticmethod
    def express(app, name, validator=None, **kw):
        return app.express_interest(name, validator=validator, **kw)

    @staticmethod
    def result(res):
        return res[0], res[2]


FRONTENDS = {'v2': V2, 'legacy': Legacy}


def trie_size(trie):
    if trie is None:
        return None
    try:
        return len(trie)
    except Exception:  # noqa
        return None


def exc_class(e) -> str:
    if isinstance(e, ndn_types.InterestNack):
        return f'nack:{e.reason}'
    if isinstance(e, ndn_types.InterestTimeout):
        return 'timeout'
    if isinstance(e, ndn_types.InterestCanceled):
        return 'canceled'
    if isinstance(e, asyncio.CancelledError):
        return 'canceled'
    if isinstance(e, ndn_types.ValidationFailure):
        return 'invalid'
    return 'error:' + type(e).__name__
