"""
Harness-side environment for running the real python-ndn front-ends on VLoop:
a Face whose input/output the harness owns, ownership of clocks and nonces, and thin
adapters so that one scenario can drive both `ndn.appv2.NDNApp` and `ndn.app.NDNApp`.
"""
from __future__ import annotations

import asyncio
import contextlib
import hashlib

import ndn.utils as ndn_utils
import ndn.encoding as enc
from ndn.transport.face import Face
from ndn import types as ndn_types

from .vloop import VLoop, FakeTime, EPOCH

# both front-ends are loaded before any environment is entered (they copy helpers of ndn.utils at import time)
import ndn.app as _ndn_app  # noqa: E402,F401
import ndn.appv2 as _ndn_appv2  # noqa: E402,F401


class Counter32:
    def __init__(self, seed=0):
        self.n = seed

    def randint(self, a, b):
        self.n += 1
        h = int.from_bytes(hashlib.sha256(b'nonce%d' % self.n).digest()[:8], 'big')
        return a + h % (b - a + 1)


_CUR = {}
_ORIG = {}


def _disp_timestamp():
    ft = _CUR.get('ft')
    return int(ft.time() * 1000) if ft is not None else _ORIG['timestamp']()


def _disp_gen_nonce():
    ctr = _CUR.get('ctr')
    return ctr.randint(1, 2 ** 32 - 1) if ctr is not None else _ORIG['gen_nonce']()


def _disp_gen_nonce_64():
    ctr = _CUR.get('ctr')
    return ctr.randint(1, 2 ** 64 - 1) if ctr is not None else _ORIG['gen_nonce_64']()


class FixedClock:
    """a wall clock that stands still (or advances by `step` seconds per reading)"""

    def __init__(self, start=1_700_000_000.0, step=0.0):
        self.t, self.step = start, step

    def time(self):
        self.t += self.step
        return self.t


class _ClockAdapter:
    def __init__(self, clock):
        self._c = clock

    def time(self):
        return self._c.time()

    def time_ns(self):
        return int(self._c.time() * 1e9)

    def monotonic(self):
        return self._c.time()


@contextlib.contextmanager
def owned_env(loop: VLoop = None, seed: int = 0, clock=None):
    """Own utils.timestamp() (virtual clock) and nonce generation for the duration of an execution.
    `clock`: an object with time() (seconds) used instead of the virtual loop's clock (checks without an event loop)."""
    import sys as _sys
    import time as _time
    import random as _random
    # (1) the public helpers utils.timestamp / gen_nonce / gen_nonce_64 are replaced by identity in every loaded ndn module,
    #     so neither the way utils reads the clock nor the way other modules import the helpers matters.  The replacements
    #     are process-wide dispatchers to the *current* environment: a module imported while an environment is active
    #     copies the dispatcher, and still follows the next execution's clock.
    prev_cur = dict(_CUR)
    _CUR.update(ft=FakeTime(loop) if clock is None else _ClockAdapter(clock), ctr=Counter32(seed + 13))
    repl = {}
    # Round 9: layer (1) is off unless VERIF_OWN_HELPERS=1.  Replacing the helpers hid every change made *inside* them (a
    # timestamp() that never repeats a value and so runs ahead of the clock, seeded C03-22); layer (2) below owns the clock and the
    # random source underneath the real helpers, which is enough for determinism.
    import os as _os
    for fname, fn in ((('timestamp', _disp_timestamp), ('gen_nonce', _disp_gen_nonce), ('gen_nonce_64', _disp_gen_nonce_64))
                      if _os.environ.get('VERIF_OWN_HELPERS') == '1' else ()):
        orig = getattr(ndn_utils, fname, None)
        if orig is not None and orig is not fn:
            _ORIG.setdefault(fname, orig)
            repl[id(orig)] = (orig, fn)
    patched = []
    for mname, mod in list(_sys.modules.items()):
        if mod is None or not (mname == 'ndn' or mname.startswith('ndn.')):
            continue
        for attr, val in list(vars(mod).items()):
            if callable(val) and id(val) in repl and repl[id(val)][0] is val:
                patched.append((mod, attr, val))
                setattr(mod, attr, repl[id(val)][1])
    ft = FakeTime(loop) if clock is None else _ClockAdapter(clock)
    # whichever way the library reads the wall clock or draws a nonce, the harness owns it for the duration of the execution:
    # the process-wide dispatchers of the mc package (installed before the library was imported) answer from mc.CUR
    import mc as _mc
    prev_mc = dict(_mc.CUR)
    _mc.CUR.update(clock=ft, randint=Counter32(seed).randint)
    try:
        yield
    finally:
        for mod, attr, val in patched:
            setattr(mod, attr, val)
        _CUR.clear()
        _CUR.update(prev_cur)
        _mc.CUR.clear()
        _mc.CUR.update(prev_mc)


@contextlib.contextmanager
def debug_logging():
    """The application has turned on DEBUG logging for the library (as its examples do): every log line is really formatted.
    What the library does must not depend on it."""
    import logging

    class Sink(logging.Handler):
        def emit(self, record):
            record.getMessage()
    prev_disable = logging.root.manager.disable
    lg = logging.getLogger('ndn')
    old = (lg.level, lg.propagate)
    sink = Sink()
    logging.disable(logging.NOTSET)
    lg.addHandler(sink)
    lg.setLevel(logging.DEBUG)
    lg.propagate = False
    try:
        yield
    finally:
        lg.removeHandler(sink)
        lg.setLevel(old[0])
        lg.propagate = old[1]
        logging.disable(prev_disable)


class HFace(Face):
    """A transport whose both ends are held by the harness.  Incoming packets are handed to the
    application exactly the way StreamFace.run / UdpFace do it: one task per packet."""

    def __init__(self, trace=None, local=True):
        super().__init__()
        self.sent: list[bytes] = []
        self.trace = trace
        self._closed: asyncio.Future | None = None
        self.local = local
        self.rx_tasks = []
        self.on_send = None     # optional hook: callable(wire)

    async def open(self):
        self.running = True
        self._closed = asyncio.get_running_loop().create_future()

    def shutdown(self):
        self.running = False
        if self._closed is not None and not self._closed.done():
            self._closed.set_result(True)

    def send(self, data):
        b = bytes(data)
        self.sent.append(b)
        if self.on_send is not None:
            self.on_send(b)

    async def run(self):
        await self._closed

    def isLocalFace(self):
        return self.local

    # harness side
    def deliver(self, wire: bytes, typ=None, label=None):
        if typ is None:
            typ, _ = enc.parse_tl_num(wire)
        loop = asyncio.get_running_loop()

        async def rx():
            if self.trace is not None:
                self.trace.append(('rx', label, loop.us))
            await self.callback(typ, wire)
        t = loop.create_task(rx())
        self.rx_tasks.append(t)
        return t


# -- front-end adapters ------------------------------------------------------------------
class V2:
    name = 'v2'

    @staticmethod
    def make_app(face):
        from ndn import appv2
        return appv2.NDNApp(face=face)

    @staticmethod
    def pit(app):
        return getattr(app, '_pit', None)

    @staticmethod
    def fib(app):
        return getattr(app, '_fib', None)

    @staticmethod
    def express(app, name, validator=None, **kw):
        from ndn import appv2
        return app.express(name, validator or appv2.pass_all, **kw)

    @staticmethod
    def result(res):
        name, content, ctx = res
        return name, content

    @staticmethod
    def accept_validator():
        from ndn import appv2
        return appv2.pass_all


class Legacy:
    name = 'legacy'

    @staticmethod
    def make_app(face):
        from ndn import app as app1
        from ndn.security import KeychainDigest
        return app1.NDNApp(face=face, keychain=KeychainDigest())

    @staticmethod
    def pit(app):
        return getattr(app, '_int_tree', None)

    @staticmethod
    def fib(app):
        return getattr(app, '_prefix_tree', None)

    @staticmethod
    def express(app, name, validator=None, **kw):
        return app.express_interest(name, validator=validator, **kw)

    @staticmethod
    def result(res):
        return res[0], res[2]


FRONTENDS = {'v2': V2, 'legacy': Legacy}


def trie_size(trie):
    if trie is None:
        return None
    try:
        return len(trie)
    except Exception:  # noqa
        return None


def exc_class(e) -> str:
    if isinstance(e, ndn_types.InterestNack):
        return f'nack:{e.reason}'
    if isinstance(e, ndn_types.InterestTimeout):
        return 'timeout'
    if isinstance(e, ndn_types.InterestCanceled):
        return 'canceled'
    if isinstance(e, asyncio.CancelledError):
        return 'canceled'
    if isinstance(e, ndn_types.ValidationFailure):
        return 'invalid'
    return 'error:' + type(e).__name__
