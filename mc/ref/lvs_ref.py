"""
Reference semantics of Light VerSec, written from docs/src/lvs/lvs.rst (not from the compiler or checker).

Schema AST (plain JSON-able python):
  schema := [rule, ...]
  rule   := {'id': '#r', 'name': [elem, ...], 'cons': [[term, ...], ...], 'sign': ['#k', ...]}
  elem   := ['lit', 'a'] | ['pat', 'x'] | ['pat', '_t'] | ['ref', '#r']
  term   := [pattern name, [option, ...]]
  option := ['lit', 'a'] | ['pat', 'x'] | ['fn', '$eq', [arg, ...]]      arg := ['lit','a'] | ['pat','x']

Semantics implemented:
  * a rule id defined several times = alternatives; several constraint sets = alternatives;
  * rule references are expanded by substitution, inheriting the constraints of the referenced rule;
  * a name matches a chain iff same length, literals equal, named patterns bound consistently (walking left to right),
    temporary patterns (leading underscore) never bound and unrelated to each other, and at the first occurrence of a
    constrained pattern every applicable constraint is satisfied by one of its options: a literal option compares the
    component, a pattern option is true only if that pattern is already bound to the same component, a function option
    calls the user function with (component, [arguments, bound patterns resolved, unbound -> None]);
  * a constraint on a temporary pattern applies to every occurrence of that identifier in the rule that states it.
"""
from __future__ import annotations

import itertools


def comp(lit: str) -> bytes:
    """generic name component for a literal"""
    b = lit.encode()
    return bytes([8, len(b)]) + b


def is_temp(p: str) -> bool:
    return p.startswith('_')


def render(schema) -> str:
    lines = []
    for r in schema:
        nm = '/'.join(f'"{e[1]}"' if e[0] == 'lit' else e[1] for e in r['name'])
        s = f"{r['id']}: {nm}"
        if r.get('cons'):
            sets = []
            for cs in r['cons']:
                terms = []
                for pat, opts in cs:
                    terms.append(f"{pat}: " + '|'.join(render_opt(o) for o in opts))
                sets.append('{' + ', '.join(terms) + '}')
            s += ' & ' + ' | '.join(sets)
        if r.get('sign'):
            s += ' <= ' + ' | '.join(r['sign'])
        lines.append(s)
    return '\n'.join(lines) + '\n'


def render_opt(o):
    if o[0] == 'lit':
        return f'"{o[1]}"'
    if o[0] == 'pat':
        return o[1]
    return f"{o[1]}(" + ', '.join(f'"{a[1]}"' if a[0] == 'lit' else a[1] for a in o[2]) + ')'


class Uniq:
    def __init__(self):
        self.n = 0

    def next(self):
        self.n += 1
        return self.n


def expand(schema, rid, uniq=None, stack=()):
    """all chains of rule `rid`: list of (elements, constraints)
    elements: [('lit', bytes) | ('pat', name) | ('tmp', unique int)]; constraints: [(target, options)], target = ('pat', name) | ('tmp', int)"""
    uniq = uniq or Uniq()
    if rid in stack:
        raise RecursionError('cyclic rule reference')
    out = []
    for r in schema:
        if r['id'] != rid:
            continue
        cons_alts = r.get('cons') or [[]]
        for cs in cons_alts:
            # partial chains: (elements, constraints, temp occurrences of this rule {ident: [ids]})
            partial = [([], [], {})]
            for e in r['name']:
                nxt = []
                if e[0] == 'lit':
                    for els, cons, tmps in partial:
                        nxt.append((els + [('lit', comp(e[1]))], cons, tmps))
                elif e[0] == 'pat':
                    for els, cons, tmps in partial:
                        if is_temp(e[1]):
                            u = uniq.next()
                            t2 = {k: list(v) for k, v in tmps.items()}
                            t2.setdefault(e[1], []).append(u)
                            nxt.append((els + [('tmp', u)], cons, t2))
                        else:
                            nxt.append((els + [('pat', e[1])], cons, tmps))
                else:
                    for els, cons, tmps in partial:
                        for sub_els, sub_cons in expand(schema, e[1], uniq, stack + (rid,)):
                            # every expansion gets fresh temporaries
                            ren = {}
                            se, sc = [], []
                            for x in sub_els:
                                if x[0] == 'tmp':
                                    ren[x[1]] = uniq.next()
                                    se.append(('tmp', ren[x[1]]))
                                else:
                                    se.append(x)
                            for tgt, opts in sub_cons:
                                sc.append(((tgt[0], ren.get(tgt[1], tgt[1])) if tgt[0] == 'tmp' else tgt, opts))
                            nxt.append((els + se, cons + sc, tmps))
                partial = nxt
            for els, cons, tmps in partial:
                own = []
                for pat, opts in cs:
                    if is_temp(pat):
                        for u in tmps.get(pat, []):
                            own.append((('tmp', u), opts))
                    else:
                        own.append((('pat', pat), opts))
                out.append((els, cons + own))
    return out


def opt_holds(o, value, bound, fns):
    if o[0] == 'lit':
        return value == comp(o[1])
    if o[0] == 'pat':
        return o[1] in bound and bound[o[1]] == value
    args = [comp(a[1]) if a[0] == 'lit' else bound.get(a[1]) for a in o[2]]
    return bool(fns[o[1]](value, args))


def match_chain(chain, name, bound0, fns, recheck_bound=False):
    """bindings (dict) if `name` matches the chain starting from bindings bound0, else None.
    recheck_bound: constraints of this chain on patterns already bound in bound0 are enforced as well (signing check)."""
    els, cons = chain
    if len(els) != len(name):
        return None
    bound = dict(bound0)
    seen_here = set()
    for e, c in zip(els, name):
        if e[0] == 'lit':
            if c != e[1]:
                return None
        elif e[0] == 'tmp':
            for tgt, opts in cons:
                if tgt == ('tmp', e[1]) and not any(opt_holds(o, c, bound, fns) for o in opts):
                    return None
        else:
            p = e[1]
            first_here = p not in seen_here
            seen_here.add(p)
            if p in bound:
                if bound[p] != c:
                    return None
                if not (recheck_bound and first_here and p in bound0):
                    continue
            for tgt, opts in cons:
                if tgt == ('pat', p) and not any(opt_holds(o, c, bound, fns) for o in opts):
                    return None
            bound[p] = c
    return bound


def rule_ids(schema):
    out = []
    for r in schema:
        if r['id'] not in out:
            out.append(r['id'])
    return out


class RefSchema:
    def __init__(self, schema, fns=None):
        self.schema = schema
        self.fns = fns or DEFAULT_FNS
        self.chains = {rid: expand(schema, rid) for rid in rule_ids(schema)}

    def match(self, name):
        """set of (rule id, frozenset(bindings.items()))"""
        out = set()
        for rid, chains in self.chains.items():
            for ch in chains:
                b = match_chain(ch, name, {}, self.fns)
                if b is not None:
                    out.add((rid, frozenset(b.items())))
        return out

    def check(self, pkt, key):
        """the signing check as stated in C12"""
        for r in self.schema:
            if not r.get('sign'):
                continue
            # chains of this *definition* only
            for ch in expand([r] + [x for x in self.schema if x['id'] != r['id']], r['id']):
                b = match_chain(ch, pkt, {}, self.fns)
                if b is None:
                    continue
                for sid in r['sign']:
                    for kch in self.chains.get(sid, []):
                        if match_chain(kch, key, b, self.fns, recheck_bound=True) is not None:
                            return True
        return False

    def max_len(self):
        return max((len(ch[0]) for chs in self.chains.values() for ch in chs), default=0)


DEFAULT_FNS = {
    '$eq': lambda c, args: all(x == c for x in args),
}
