"""
Independent strict reader of NDN packet format 0.3 (Interest, Data), NDNLPv2 LpPacket and
certificate v2, written from the specifications.  Does not import the library.

Every reader returns a dict of extracted fields (bytes / ints / lists) plus byte ranges of the
signed and digest-covered portions; it raises tlv_strict.Malformed(clause) for the
well-formedness clauses named in C07:
   'no-name'            mandatory Name missing
   'overrun' / 'tl-truncated'   a nested element does not lie inside its parent
   'uint-width'         NonNegativeInteger with a length other than 1,2,4,8
   'critical-unknown'   unrecognised critical (odd) type
   'critical-order'     recognised critical field repeated or out of order
   'type'               outer type is not the expected one
   'trailing'           bytes after the outer element
`contested` in the result lists irregularities on which python-ndn's documented rule ("critical
== odd type") and the NDN rule (types below 32 are critical too) disagree.
"""
from __future__ import annotations

from .tlv_strict import Malformed, read_single, read_seq, read_uint, El

T_INTEREST, T_DATA, T_NAME = 5, 6, 7
T_CBP, T_MBF, T_FH, T_NONCE, T_LIFETIME, T_HOP, T_APP, T_ISIGINFO, T_ISIGVAL = 0x21, 0x12, 0x1e, 0x0a, 0x0c, 0x22, 0x24, 0x2c, 0x2e
T_META, T_CONTENT, T_SIGINFO, T_SIGVAL = 0x14, 0x15, 0x16, 0x17
T_CTYPE, T_FRESH, T_FINAL = 0x18, 0x19, 0x1a
T_SIGTYPE, T_KEYLOC, T_KEYDIGEST, T_SIGNONCE, T_SIGTIME, T_SIGSEQ = 0x1b, 0x1c, 0x1d, 0x26, 0x28, 0x2a
T_VALIDITY, T_NOTBEFORE, T_NOTAFTER = 0xFD, 0xFE, 0xFF
T_PARAMS_DIGEST = 2

LP_PACKET, LP_FRAGMENT, LP_FRAGINDEX, LP_FRAGCOUNT, LP_PITTOKEN = 0x64, 0x50, 0x52, 0x53, 0x62
LP_NACK, LP_NACKREASON = 0x0320, 0x0321
LP_INFACE, LP_NEXTHOP, LP_CACHE, LP_CACHETYPE, LP_CONG, LP_ACK, LP_TXSEQ, LP_NONDISC, LP_PREFIXANN = \
    0x032C, 0x0330, 0x0334, 0x0335, 0x0340, 0x0344, 0x0348, 0x034C, 0x0350


def pick(children: list[El], order: list[int], ignore_critical=False, contested=None, minimal=False):
    """Assign children to the recognised fields of `order` (each at most once, in order)."""
    out = {}
    pos = 0
    for el in children:
        idx = None
        for k in range(pos, len(order)):
            if order[k] == el.typ:
                idx = k
                break
        if idx is not None:
            out[el.typ] = el
            pos = idx + 1
            continue
        if el.typ in order:
            # recognised, but repeated or out of order
            if el.typ & 1:
                if not ignore_critical:
                    raise Malformed('critical-order', f'type {el.typ:#x} repeated or out of order')
                elif contested is not None:
                    contested.append(f'recognised-odd-in-ignore-critical-region:{el.typ:#x}')
            elif contested is not None:
                contested.append(f'even-recognised-repeated-or-out-of-order:{el.typ:#x}')
        else:
            if el.typ & 1:
                if not ignore_critical:
                    raise Malformed('critical-unknown', f'type {el.typ:#x}')
            elif el.typ < 32 and contested is not None:
                contested.append(f'even-unknown-below-32:{el.typ:#x}')
    return out


def read_name(el: El, minimal=False) -> list[bytes]:
    if el.typ != T_NAME:
        raise Malformed('type', f'expected Name, got {el.typ:#x}')
    return [c.wire for c in el.children(minimal)]


def read_siginfo(el: El, minimal, contested, ignore_critical, cert=False):
    ch = el.children(minimal)
    order = [T_SIGTYPE, T_KEYLOC, T_SIGNONCE, T_SIGTIME, T_SIGSEQ]
    if cert:
        order = order + [T_VALIDITY, 0x0102]
    f = pick(ch, order, ignore_critical=ignore_critical, contested=contested)
    out = {'raw': el.wire}
    out['type'] = read_uint(f[T_SIGTYPE]) if T_SIGTYPE in f else None
    out['key_name'] = None
    out['key_digest'] = None
    if T_KEYLOC in f:
        kf = pick(f[T_KEYLOC].children(minimal), [T_NAME, T_KEYDIGEST], contested=contested)
        out['has_keyloc'] = True
        if T_NAME in kf:
            out['key_name'] = read_name(kf[T_NAME], minimal)
        if T_KEYDIGEST in kf:
            out['key_digest'] = kf[T_KEYDIGEST].value
    else:
        out['has_keyloc'] = False
    for t, k in ((T_SIGNONCE, 'nonce'), (T_SIGTIME, 'time'), (T_SIGSEQ, 'seq')):
        out[k] = read_uint(f[t]) if t in f else None
    if cert:
        out['not_before'] = out['not_after'] = None
        if T_VALIDITY in f:
            vf = pick(f[T_VALIDITY].children(minimal), [T_NOTBEFORE, T_NOTAFTER], contested=contested)
            out['not_before'] = vf[T_NOTBEFORE].value if T_NOTBEFORE in vf else None
            out['not_after'] = vf[T_NOTAFTER].value if T_NOTAFTER in vf else None
        # AdditionalDescription: a list of (key, value) entries
        out['descr'] = None
        if 0x0102 in f:
            out['descr'] = []
            for e in f[0x0102].children(minimal):
                if e.typ == 0x0200:
                    ef = pick(e.children(minimal), [0x0201, 0x0202], contested=contested)
                    out['descr'].append([ef[0x0201].value if 0x0201 in ef else None, ef[0x0202].value if 0x0202 in ef else None])
    return out


def read_interest(wire, minimal=False) -> dict:
    wire = bytes(wire)
    top = read_single(wire, minimal)
    if top.typ != T_INTEREST:
        raise Malformed('type', f'outer type {top.typ:#x}')
    contested = []
    ch = top.children(minimal)
    f = pick(ch, [T_NAME, T_CBP, T_MBF, T_FH, T_NONCE, T_LIFETIME, T_HOP, T_APP, T_ISIGINFO, T_ISIGVAL],
             contested=contested)
    if T_NAME not in f:
        raise Malformed('no-name')
    name = read_name(f[T_NAME], minimal)
    out = {'kind': 'interest', 'name': name, 'contested': contested}
    out['cbp'] = T_CBP in f
    out['mbf'] = T_MBF in f
    out['fh'] = []
    if T_FH in f:
        for e in f[T_FH].children(minimal):
            if e.typ == T_NAME:
                out['fh'].append(read_name(e, minimal))
            elif e.typ & 1:
                raise Malformed('critical-unknown', f'in ForwardingHint {e.typ:#x}')
    out['nonce'] = None
    if T_NONCE in f:
        out['nonce'] = read_uint(f[T_NONCE])
    out['lifetime'] = read_uint(f[T_LIFETIME]) if T_LIFETIME in f else None
    out['hop_limit'] = read_uint(f[T_HOP]) if T_HOP in f else None
    out['app'] = f[T_APP].value if T_APP in f else None
    out['sig_info'] = read_siginfo(f[T_ISIGINFO], minimal, contested, False) if T_ISIGINFO in f else None
    out['sig_value'] = f[T_ISIGVAL].value if T_ISIGVAL in f else None
    # signed portion: all name components except ParametersSha256Digest, then from ApplicationParameters up to
    # (excluding) InterestSignatureValue
    comps = f[T_NAME].children(minimal)
    signed = [c.wire for c in comps if c.typ != T_PARAMS_DIGEST]
    digs = [c for c in comps if c.typ == T_PARAMS_DIGEST]
    out['digest_value'] = digs[-1].value if digs else None
    out['n_digest_comps'] = len(digs)
    if T_APP in f:
        end = f[T_ISIGVAL].start if T_ISIGVAL in f else top.end
        # bytes between ApplicationParameters and the signature value as they stand on the wire
        signed.append(wire[f[T_APP].start:end])
        out['digest_cover'] = wire[f[T_APP].start:top.end]
    else:
        out['digest_cover'] = None
    out['signed'] = b''.join(signed)
    return out


def read_meta(el: El, minimal, contested):
    f = pick(el.children(minimal), [T_CTYPE, T_FRESH, T_FINAL], contested=contested)
    return {'content_type': read_uint(f[T_CTYPE]) if T_CTYPE in f else None,
            'freshness': read_uint(f[T_FRESH]) if T_FRESH in f else None,
            'final_block_id': f[T_FINAL].value if T_FINAL in f else None}


def read_data(wire, minimal=False, cert=False) -> dict:
    wire = bytes(wire)
    top = read_single(wire, minimal)
    if top.typ != T_DATA:
        raise Malformed('type', f'outer type {top.typ:#x}')
    contested = []
    f = pick(top.children(minimal), [T_NAME, T_META, T_CONTENT, T_SIGINFO, T_SIGVAL], contested=contested)
    if T_NAME not in f:
        raise Malformed('no-name')
    out = {'kind': 'data', 'name': read_name(f[T_NAME], minimal), 'contested': contested}
    out['meta'] = read_meta(f[T_META], minimal, contested) if T_META in f else None
    out['content'] = f[T_CONTENT].value if T_CONTENT in f else None
    out['sig_info'] = read_siginfo(f[T_SIGINFO], minimal, contested, True, cert=cert) if T_SIGINFO in f else None
    out['sig_value'] = f[T_SIGVAL].value if T_SIGVAL in f else None
    # signed portion: from the start of Name up to (excluding) SignatureValue
    if T_SIGVAL in f:
        out['signed'] = wire[f[T_NAME].start:f[T_SIGVAL].start]
    else:
        out['signed'] = None
    return out


def read_lp(wire, minimal=False) -> dict:
    wire = bytes(wire)
    top = read_single(wire, minimal)
    if top.typ != LP_PACKET:
        raise Malformed('type', f'outer type {top.typ:#x}')
    contested = []
    order = [LP_FRAGINDEX, LP_FRAGCOUNT, LP_PITTOKEN, LP_NACK, LP_INFACE, LP_NEXTHOP, LP_CACHE, LP_CONG,
             LP_TXSEQ, LP_ACK, LP_NONDISC, LP_PREFIXANN, LP_FRAGMENT]
    f = pick(top.children(minimal), order, ignore_critical=True, contested=contested)
    out = {'kind': 'lp', 'contested': contested}
    out['frag_index'] = read_uint(f[LP_FRAGINDEX]) if LP_FRAGINDEX in f else None
    out['frag_count'] = read_uint(f[LP_FRAGCOUNT]) if LP_FRAGCOUNT in f else None
    out['pit_token'] = f[LP_PITTOKEN].value if LP_PITTOKEN in f else None
    out['nack'] = None
    if LP_NACK in f:
        nf = pick(f[LP_NACK].children(minimal), [LP_NACKREASON], contested=contested)
        out['nack'] = {'reason': read_uint(nf[LP_NACKREASON]) if LP_NACKREASON in nf else None}
    out['incoming_face_id'] = read_uint(f[LP_INFACE]) if LP_INFACE in f else None
    out['next_hop_face_id'] = read_uint(f[LP_NEXTHOP]) if LP_NEXTHOP in f else None
    out['congestion_mark'] = read_uint(f[LP_CONG]) if LP_CONG in f else None
    out['cache_policy'] = None
    if LP_CACHE in f:
        cf = pick(f[LP_CACHE].children(minimal), [LP_CACHETYPE], contested=contested)
        out['cache_policy'] = read_uint(cf[LP_CACHETYPE]) if LP_CACHETYPE in cf else None
    out['non_discovery'] = LP_NONDISC in f
    out['fragment'] = f[LP_FRAGMENT].value if LP_FRAGMENT in f else None
    if out['frag_index'] is not None or out['frag_count'] is not None:
        raise Malformed('fragmented', 'NDNLP fragmentation')
    return out
