"""
Reference PIT: computes, from the *executed* trace of an execution, the set of acceptable
outcomes of every expressed Interest.  Written from the statement of C03/C05, not from the code.

Trace entries used (appended by the harness while the real code runs):
  ('fire', ev, us[, n])      an environment event was fired; ev == 'tick' moves the clock to us
  ('expressed', i, us)       caller i is about to call express (inside its own task step)
  ('rx', label, us)          the library starts processing packet `label`
  ('vstart', i, us) / ('vdone', i, us)   the validator given to Interest i starts / returns
  ('awaited', i, us)         the caller awaits the result only now (late await)
  ('quiescent',)             the ready queue is empty

An Interest is *closed* by the first event that can complete it (its first candidate).  All
candidates that occur before the ready queue next becomes empty are "the same instant" and any
of their outcomes is accepted (DESIGN 2.5/2); everything later cannot change the outcome.
"""
from __future__ import annotations


def is_prefix(a, b):
    return len(a) <= len(b) and list(b[:len(a)]) == list(a)


def matches(ispec, pkt):
    """ispec: {'comps': [...], 'cbp': bool, 'digest': hex|None}; pkt: {'comps': [...], 'sha256': hex}"""
    if ispec['comps'] == pkt['comps']:
        ok = True
    elif ispec.get('cbp') and is_prefix(ispec['comps'], pkt['comps']):
        ok = True
    else:
        ok = False
    if ok and ispec.get('digest') is not None:
        ok = ispec['digest'] == pkt['sha256']
    return ok


def acceptable_outcomes(trace, interests, packets, legacy=False, deadline_validation=True):
    """
    interests: {i: {'comps', 'cbp', 'digest', 'lifetime' (ms), 'vlat' (ms validator latency, 0 = immediate),
                    'verdict': 'accept'|'reject'}}
    packets:   {label: {'kind': 'data'|'nack', 'comps', 'sha256', 'reason', 'nack_digest': bool}}
    Returns {i: set(outcomes)} for every caller that appears in the trace, and {i: first candidate index}.
    Outcomes: 'data:<label>', 'invalid:<label>', 'nack:<reason>', 'timeout', 'canceled', 'neterr'.
    """
    st = {}        # i -> state
    dl = {}        # i -> deadline us
    val = {}       # i -> label being validated
    val_idx = {}   # i -> trace index at which the Data was accepted for validation
    awaited = {}   # i -> clock reading at which the caller first awaited the result (only recorded when it does so late)
    cands = {i: [] for i in interests}
    soft = {i: [] for i in interests}   # outcomes tolerated (statement silent) but that do not close the Interest
    down = False
    down_soon = False
    for idx, e in enumerate(trace):
        k = e[0]
        if k == 'quiescent' and down_soon:
            down, down_soon = True, False
        if k == 'expressed':
            i = e[1]
            if down:
                cands[i].append((idx, 'neterr'))
                st[i] = 'closedish'
            elif down_soon:
                # the main-loop task has been cancelled but has not run yet: the face may still take the Interest - which is then
                # pending like any other until the cancellation takes effect (a packet arriving in between may complete it) -
                # or it may already refuse it
                cands[i].append((idx, 'neterr'))
                cands[i].append((idx, 'canceled'))
                st[i] = 'pending'
                dl[i] = e[2] + interests[i]['lifetime'] * 1000
            else:
                st[i] = 'pending'
                dl[i] = e[2] + interests[i]['lifetime'] * 1000
                if interests[i]['lifetime'] == 0:
                    # a lifetime of zero: the deadline is reached in the instant of expression (no clock tick is needed)
                    cands[i].append((idx, 'timeout'))
        elif k == 'rx':
            pkt = packets.get(e[1])
            if pkt is None:
                continue
            for i, s in st.items():
                if s != 'pending':
                    continue
                sp = interests[i]
                if pkt['kind'] == 'data' and matches(sp, pkt):
                    good = sp.get('verdict', 'accept') == 'accept'
                    out = ('data:' if good else 'invalid:') + e[1]
                    if sp.get('vlat', 0) > 0:
                        st[i] = 'validating'
                        val[i] = out
                        val_idx[i] = idx
                    else:
                        cands[i].append((idx, out))
                elif pkt['kind'] == 'nack' and pkt['comps'] == sp['comps'] and pkt.get('digest') == sp.get('digest'):
                    cands[i].append((idx, f"nack:{pkt['reason']}"))
        elif k == 'awaited':
            awaited[e[1]] = e[2]
        elif k == 'vdone':
            i = e[1]
            if st.get(i) == 'validating':
                cands[i].append((idx, val[i]))
        elif k == 'fire':
            ev = e[1]
            if ev == 'tick':
                for i, s in st.items():
                    if s == 'pending' or (s == 'validating' and not legacy and deadline_validation):
                        if e[2] >= dl[i]:
                            cands[i].append((idx, 'timeout'))
            elif isinstance(ev, str) and ev.startswith('c') and ev[1:].isdigit():
                i = int(ev[1:])
                if i in interests:
                    cands[i].append((idx, 'canceled'))
            elif ev in ('s', 'm'):
                if ev == 's':
                    down = True
                else:
                    down_soon = True
                for i, s in st.items():
                    if s == 'pending':
                        cands[i].append((idx, 'canceled'))
                    elif s == 'validating':
                        # the Data has already arrived; whether shutdown still cancels it is not stated
                        soft[i].append((idx, 'canceled'))
    def window_end(k):
        for j in range(k + 1, len(trace)):
            if trace[j][0] == 'quiescent':
                return j
        return len(trace)

    acc = {}
    first = {}
    for i, lst in cands.items():
        if not lst:
            acc[i] = set()
            continue
        k1 = lst[0][0]
        end = window_end(k1)
        acc[i] = {o for (ix, o) in lst if k1 <= ix <= end} | {o for (ix, o) in soft[i] if ix <= end}
        first[i] = k1
        v = val_idx.get(i)
        if v is not None and k1 < v <= end:
            # a Data was accepted for (slow) validation in the same instant as the first candidate:
            # the Data may have won, so whatever the validation leads to is acceptable as well
            later = [(ix, o) for (ix, o) in lst if ix > v]
            if later:
                k2 = later[0][0]
                end2 = window_end(k2)
                acc[i] |= {o for (ix, o) in later if ix <= end2} | {o for (ix, o) in soft[i] if ix <= end2}
    return acc, first
