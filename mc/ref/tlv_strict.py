"""
Independent TLV reader / writer (NDN packet format 0.3 VAR-NUMBER rules).  Written from the
specification, does not import the library.

read_* functions raise Malformed(clause) naming the well-formedness clause that fails:
  'tl-truncated'   a type or length number runs past the end of its container
  'tl-nonminimal'  a type or length number is not in its shortest form (only when minimal=True)
  'overrun'        an element's declared length runs past the end of its container
  'trailing'       bytes remain after the single expected element
"""
from __future__ import annotations

import struct


class Malformed(Exception):
    def __init__(self, clause, detail='', parent=None):
        super().__init__(f'{clause} {detail}')
        self.clause = clause
        self.parent = parent      # type number of the container whose content is malformed (None = the outer buffer)


def read_num(buf, off, end, minimal=True):
    if off >= end:
        raise Malformed('tl-truncated', f'@{off}')
    b = buf[off]
    if b <= 0xFC:
        return b, 1
    w = {0xFD: 2, 0xFE: 4, 0xFF: 8}[b]
    if off + 1 + w > end:
        raise Malformed('tl-truncated', f'@{off}')
    v = int.from_bytes(buf[off + 1:off + 1 + w], 'big')
    if minimal:
        lo = {2: 0xFD, 4: 0x10000, 8: 0x100000000}[w]
        if v < lo:
            raise Malformed('tl-nonminimal', f'@{off} value {v} in {w}-byte form')
    return v, 1 + w


class El:
    """One TLV element inside a buffer."""
    __slots__ = ('typ', 'start', 'vstart', 'end', 'buf')

    def __init__(self, buf, typ, start, vstart, end):
        self.buf, self.typ, self.start, self.vstart, self.end = buf, typ, start, vstart, end

    @property
    def value(self) -> bytes:
        return bytes(self.buf[self.vstart:self.end])

    @property
    def wire(self) -> bytes:
        return bytes(self.buf[self.start:self.end])

    @property
    def length(self):
        return self.end - self.vstart

    def children(self, minimal=True):
        try:
            return read_seq(self.buf, self.vstart, self.end, minimal)
        except Malformed as e:
            if e.parent is None:
                e.parent = self.typ
            raise

    def __repr__(self):
        return f'El({self.typ:#x},{self.start}:{self.vstart}:{self.end})'


def read_el(buf, off, end, minimal=True) -> El:
    t, ts = read_num(buf, off, end, minimal)
    ln, ls = read_num(buf, off + ts, end, minimal)
    vstart = off + ts + ls
    if vstart + ln > end:
        raise Malformed('overrun', f'element type {t:#x} @{off} length {ln} exceeds container end {end}')
    return El(buf, t, off, vstart, vstart + ln)


def read_seq(buf, start, end, minimal=True) -> list[El]:
    out = []
    off = start
    while off < end:
        e = read_el(buf, off, end, minimal)
        out.append(e)
        off = e.end
    return out


def read_single(buf, minimal=True) -> El:
    buf = bytes(buf)
    e = read_el(buf, 0, len(buf), minimal)
    if e.end != len(buf):
        raise Malformed('trailing', f'{len(buf) - e.end} bytes after the element')
    return e


def read_uint(el: El) -> int:
    if el.length not in (1, 2, 4, 8):
        raise Malformed('uint-width', f'type {el.typ:#x} length {el.length}')
    return int.from_bytes(el.value, 'big')


# -- writer ------------------------------------------------------------------------------
def num(v: int) -> bytes:
    if v <= 0xFC:
        return bytes([v])
    if v <= 0xFFFF:
        return b'\xfd' + struct.pack('!H', v)
    if v <= 0xFFFFFFFF:
        return b'\xfe' + struct.pack('!I', v)
    return b'\xff' + struct.pack('!Q', v)


def tlv(t: int, value: bytes) -> bytes:
    return num(t) + num(len(value)) + bytes(value)


def uint(v: int, fixed=None) -> bytes:
    if fixed is not None:
        return v.to_bytes(fixed, 'big')
    for w in (1, 2, 4, 8):
        if v < 1 << (8 * w):
            return v.to_bytes(w, 'big')
    raise ValueError(v)
