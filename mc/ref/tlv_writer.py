"""
Reference TLV writer driven only by a declared model *shape* (not by the library's encoder).

shape  := list of fields
field  := {'n': attr name, 'k': kind, 't': type number, ...}
kinds  : 'uint' (opt 'fixed': 1|2|4|8), 'bool', 'bytes', 'text', 'name', 'model' ('fields': shape, opt 'ic': ignore_critical),
         'rep' ('e': element field), 'map' ('key': field, 'val': field)
values : python values per kind: int | bool | bytes | str | list[component bytes] | dict (model: attr -> value) |
         list (rep) | list of (key, value) pairs (map);  None = absent
"""
from __future__ import annotations

from .tlv_strict import tlv, uint, num


def enc_field(f, v) -> bytes:
    k = f['k']
    if k == 'rep':
        return b''.join(enc_field(f['e'], x) for x in (v or []))
    if k == 'map':
        return b''.join(enc_field(f['key'], kk) + enc_field(f['val'], vv) for kk, vv in (v or []))
    if v is None:
        return b''
    if k == 'uint':
        return tlv(f['t'], uint(v, f.get('fixed')))
    if k == 'bool':
        return tlv(f['t'], b'') if v else b''
    if k == 'bytes':
        return tlv(f['t'], bytes(v))
    if k == 'text':
        return tlv(f['t'], v.encode('utf-8'))
    if k == 'name':
        return tlv(7, b''.join(bytes(c) for c in v))
    if k == 'model':
        return tlv(f['t'], enc_model(f['fields'], v))
    raise ValueError(k)


def enc_model(shape, values: dict) -> bytes:
    return b''.join(enc_field(f, values.get(f['n'])) for f in shape)


def elements(shape, values: dict):
    """flat list of (bytes, field) in wire order: one entry per emitted top-level element of this model"""
    out = []
    for f in shape:
        v = values.get(f['n'])
        if f['k'] == 'rep':
            for x in (v or []):
                b = enc_field(f['e'], x)
                if b:
                    out.append((b, f['e']))
        elif f['k'] == 'map':
            for kk, vv in (v or []):
                out.append((enc_field(f['key'], kk), f['key']))
                out.append((enc_field(f['val'], vv), f['val']))
        else:
            b = enc_field(f, v)
            if b:
                out.append((b, f))
    return out
