"""Ownership of cryptographic randomness and key material (DESIGN 2.2)."""
from __future__ import annotations

import contextlib
import hashlib
import os

import Cryptodome.Random as CR
from Cryptodome.PublicKey import RSA, ECC

KEYDIR = os.path.join(os.path.dirname(os.path.dirname(os.path.abspath(__file__))), 'fixtures', 'keys')


class Drbg:
    """SHA-256 counter DRBG: deterministic stand-in for Cryptodome.Random.get_random_bytes."""

    def __init__(self, seed):
        self.seed = repr(seed).encode()
        self.ctr = 0

    def __call__(self, n):
        out = b''
        while len(out) < n:
            out += hashlib.sha256(self.seed + self.ctr.to_bytes(8, 'big')).digest()
            self.ctr += 1
        return out[:n]


@contextlib.contextmanager
def owned_random(seed=0):
    drbg = Drbg(seed)
    old = CR.get_random_bytes
    old_u = getattr(CR, 'urandom', None)
    CR.get_random_bytes = drbg
    CR.urandom = drbg          # _UrandomRNG.read() (Random.new().read) looks this name up at call time
    # modules that did `from Cryptodome.Random import get_random_bytes`
    import ndn.security.tpm.tpm as tpm_mod
    old_tpm = tpm_mod.get_random_bytes
    tpm_mod.get_random_bytes = drbg
    try:
        yield drbg
    finally:
        CR.get_random_bytes = old
        CR.urandom = old_u
        tpm_mod.get_random_bytes = old_tpm


_cache = {}


def key_der(name: str) -> bytes:
    """private key DER from the committed fixture pool, e.g. 'ec256_0', 'rsa2048_1', 'ed25519_0', 'ec384_0'"""
    if name not in _cache:
        with open(os.path.join(KEYDIR, name + '.der'), 'rb') as f:
            _cache[name] = f.read()
    return _cache[name]


def pub_der(name: str) -> bytes:
    k = ('pub', name)
    if k not in _cache:
        der = key_der(name)
        if name.startswith('rsa'):
            _cache[k] = RSA.import_key(der).publickey().export_key(format='DER')
        else:
            _cache[k] = bytes(ECC.import_key(der).public_key().export_key(format='DER'))
    return _cache[k]
