"""Ownership of cryptographic randomness and key material (DESIGN 2.2)."""
from __future__ import annotations

import contextlib
import hashlib
import os

import Cryptodome.Random as CR
from Cryptodome.PublicKey import RSA, ECC

KEYDIR = os.path.join(os.path.dirname(os.path.dirname(os.path.abspath(__file__))), 'fixtures', 'keys')


class Drbg:
    """SHA-256 counter DRBG: deterministic stand-in for Cryptodome.Random.get_random_bytes."""

    def __init__(self, seed):
        self.seed = repr(seed).encode()
        self.ctr = 0

    def __call__(self, n):
        out = b''
        while len(out) < n:
            out += hashlib.sha256(self.seed + self.ctr.to_bytes(8, 'big')).digest()
            self.ctr += 1
        return out[:n]


@contextlib.contextmanager
def owned_random(seed=0):
    drbg = Drbg(seed)
    old = CR.get_random_bytes
    old_u = getattr(CR, 'urandom', None)
    CR.get_random_bytes = drbg
    CR.urandom = drbg          # _UrandomRNG.read() (Random.new().read) looks this name up at call time
    # modules that did `from Cryptodome.Random import get_random_bytes` hold the original function: replace it by identity
    # in every loaded module of the library
    import sys as _sys
    patched = []
    for mname, mod in list(_sys.modules.items()):
        if mod is None or not (mname == 'ndn' or mname.startswith('ndn.')):
            continue
        for attr, val in list(vars(mod).items()):
            if val is old:
                patched.append((mod, attr))
                setattr(mod, attr, drbg)
    try:
        yield drbg
    finally:
        CR.get_random_bytes = old
        CR.urandom = old_u
        for mod, attr in patched:
            setattr(mod, attr, old)


import time as _time_mod
_REAL_TIME = _time_mod.time
_cache = {}


def key_der(name: str) -> bytes:
    """private key DER from the committed fixture pool, e.g. 'ec256_0', 'rsa2048_1', 'ed25519_0', 'ec384_0'"""
    if name not in _cache:
        with open(os.path.join(KEYDIR, name + '.der'), 'rb') as f:
            _cache[name] = f.read()
    return _cache[name]


def pub_der(name: str) -> bytes:
    k = ('pub', name)
    if k not in _cache:
        der = key_der(name)
        if name.startswith('rsa'):
            _cache[k] = RSA.import_key(der).publickey().export_key(format='DER')
        else:
            _cache[k] = bytes(ECC.import_key(der).public_key().export_key(format='DER'))
    return _cache[k]


@contextlib.contextmanager
def fixed_now(iso='2024-02-29T12:00:00+00:00'):
    """Own the wall clock inside ndn.app_support.security_v2 (self_sign / sign_req read it): whichever standard call the module
    uses - datetime.now / utcnow / today under any import style, time.time, time.time_ns - answers the same instant."""
    import datetime as _dt
    import types
    import mc
    import ndn.app_support.security_v2 as sv2
    instant = _dt.datetime.fromisoformat(iso)
    epoch = instant.timestamp()

    class FixedDateTime(_dt.datetime):
        @classmethod
        def now(cls, tz=None):
            return instant.astimezone(tz) if tz is not None else instant.replace(tzinfo=None)

        @classmethod
        def utcnow(cls):
            return instant.astimezone(_dt.timezone.utc).replace(tzinfo=None)

        @classmethod
        def today(cls):
            return instant.replace(tzinfo=None)

    proxy = types.ModuleType('datetime')
    proxy.__dict__.update({k: v for k, v in vars(_dt).items() if not k.startswith('__')})
    proxy.datetime = FixedDateTime
    patched = []
    for attr, val in list(vars(sv2).items()):
        if val is _dt.datetime:
            patched.append((attr, val))
            setattr(sv2, attr, FixedDateTime)
        elif val is _dt:
            patched.append((attr, val))
            setattr(sv2, attr, proxy)

    class _Clock:
        @staticmethod
        def time():
            return epoch
    prev = mc.CUR.get('clock')
    own_clock = prev is None            # an enclosing owned_env already owns the clock: leave it alone
    if own_clock:
        mc.CUR['clock'] = _Clock
    try:
        yield instant
    finally:
        for attr, val in patched:
            setattr(sv2, attr, val)
        if own_clock:
            mc.CUR['clock'] = prev
