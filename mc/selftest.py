"""Framework self-test: the virtual loop and the explorer behave as documented."""
import asyncio
from mc.vloop import VLoop
from mc.explore import execute, explore


def test_vloop():
    loop = VLoop()
    with loop:
        out = []

        async def a():
            try:
                await asyncio.wait_for(asyncio.get_running_loop().create_future(), 0.01)
            except TimeoutError:
                out.append(('timeout', loop.us))

        async def boom():
            raise ValueError('x')
        loop.create_task(a())
        loop.create_task(boom())
        loop.settle()
        assert out == [('timeout', 10000)], out
        assert [f['exception'] for f in loop.task_failures()] == ['ValueError']


class Sc:
    """two callbacks racing on a shared cell: the explorer must find both orders with d>=1"""

    def __init__(self, loop, trace):
        self.loop, self.trace, self.cell = loop, trace, []

    def setup(self):
        pass

    def fire(self, ev):
        async def w():
            await asyncio.sleep(0)
            self.cell.append(ev)
        self.loop.create_task(w())

    def finish(self):
        return tuple(self.cell)


def test_explore():
    seen0, seen1 = set(), set()
    n0 = explore(lambda l, t: Sc(l, t), ('a', 'b'), 0, lambda r: seen0.add(r.obs))
    n1 = explore(lambda l, t: Sc(l, t), ('a', 'b'), 1, lambda r: seen1.add(r.obs))
    assert seen0 == {('a', 'b')} and n0 == 1, (seen0, n0)
    assert n1 > n0 and ('a', 'b') in seen1, (seen1, n1)
    r1 = execute(lambda l, t: Sc(l, t), ('a', 'b'), (1,))
    r2 = execute(lambda l, t: Sc(l, t), ('a', 'b'), (1,))
    assert r1.obs == r2.obs and r1.choices == r2.choices


if __name__ == '__main__':
    test_vloop()
    test_explore()
    print('selftest ok')
