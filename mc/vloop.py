"""
Virtual-time asyncio event loop driven step by step by an explorer.

VLoop never blocks and never looks at the wall clock.  The explorer decides, one
transition at a time, whether to run the oldest ready callback, to fire an
environment event, or to advance virtual time to the next timer.  Stock
asyncio Task / Future / Event / Semaphore / wait_for / StreamReader work on it.

Clock: an integer microsecond counter `us`; `time()` returns us / 1e6.
"""
from __future__ import annotations

import asyncio
import heapq
import sys
import threading
from asyncio import base_events, events

EPS = 5e-7          # timers closer than this to `now` count as due (float noise)
EPOCH = 1_700_000_000  # integer seconds; the wall clock the library sees is EPOCH + loop.time() + 0.5ms


class HorizonExceeded(Exception):
    """The step cap of an execution was hit: a hard harness error, never a silent truncation."""


class FakeDatagramTransport(asyncio.DatagramTransport):
    def __init__(self, loop, protocol):
        super().__init__()
        self._loop = loop
        self.protocol = protocol
        self.sent = []
        self.closed = False

    def sendto(self, data, addr=None):
        self.sent.append(bytes(data))

    def close(self):
        if not self.closed:
            self.closed = True
            self._loop.call_soon(self.protocol.connection_lost, None)

    def is_closing(self):
        return self.closed

    def abort(self):
        self.close()


class VLoop(base_events.BaseEventLoop):
    def __init__(self):
        super().__init__()
        self.us = 0
        self.tasks: list[asyncio.Task] = []
        self.handler_reports: list[dict] = []
        self.steps = 0
        self.max_steps = 200_000
        self.set_task_factory(self._make_task)
        self.set_exception_handler(self._on_loop_exc)
        self.datagram_transports = []
        self._entered = False
        self._old_hooks = None

    # -- BaseEventLoop plumbing -------------------------------------------------------
    def time(self):
        return self.us / 1e6

    def _process_events(self, event_list):
        pass

    def _write_to_self(self):
        pass

    async def create_datagram_endpoint(self, protocol_factory, local_addr=None, remote_addr=None, **kw):
        protocol = protocol_factory()
        transport = FakeDatagramTransport(self, protocol)
        self.datagram_transports.append(transport)
        protocol.connection_made(transport)
        return transport, protocol

    def _make_task(self, loop, coro, **kw):
        t = asyncio.Task(coro, loop=loop, **kw)
        self.tasks.append(t)
        return t

    def _on_loop_exc(self, loop, context):
        rep = {'message': context.get('message')}
        exc = context.get('exception')
        if exc is not None:
            rep['exception'] = type(exc).__name__
            rep['where'] = tb_where(exc)
        self.handler_reports.append(rep)

    # -- enter / leave ----------------------------------------------------------------
    def enter(self):
        assert not self._entered
        self._entered = True
        self._thread_id = threading.get_ident()
        self._old_hooks = sys.get_asyncgen_hooks()
        sys.set_asyncgen_hooks(firstiter=self._asyncgen_firstiter_hook,
                               finalizer=self._asyncgen_finalizer_hook)
        events._set_running_loop(self)

    def leave(self):
        if self._entered:
            events._set_running_loop(None)
            self._thread_id = None
            sys.set_asyncgen_hooks(*self._old_hooks)
            self._entered = False

    def __enter__(self):
        self.enter()
        return self

    def __exit__(self, *a):
        self.leave()
        # break reference cycles early; do not call close() machinery on executors
        self._ready.clear()
        self._scheduled.clear()

    # -- explorer primitives ----------------------------------------------------------
    def _purge(self):
        while self._ready and self._ready[0]._cancelled:
            self._ready.popleft()

    def ready_len(self) -> int:
        self._purge()
        return len(self._ready)

    def run_one(self) -> bool:
        """Run the oldest ready (non-cancelled) callback. Returns False if none."""
        self._purge()
        if not self._ready:
            return False
        self.steps += 1
        if self.steps > self.max_steps:
            raise HorizonExceeded(f'step cap {self.max_steps} hit')
        h = self._ready.popleft()
        h._run()
        return True

    def drain(self, cap: int | None = None) -> int:
        n = 0
        while self.run_one():
            n += 1
            if cap is not None and n >= cap:
                break
        return n

    def next_timer_us(self):
        while self._scheduled and self._scheduled[0]._cancelled:
            self._timer_cancelled_count -= 1
            h = heapq.heappop(self._scheduled)
            h._scheduled = False
        if not self._scheduled:
            return None
        return max(self.us, int(round(self._scheduled[0]._when * 1e6)))

    def due_timers(self):
        """Pop all timers that are due at the current instant, in heap order."""
        out = []
        now = self.time() + EPS
        while self._scheduled:
            h = self._scheduled[0]
            if h._cancelled:
                self._timer_cancelled_count -= 1
                heapq.heappop(self._scheduled)
                h._scheduled = False
                continue
            if h._when > now:
                break
            heapq.heappop(self._scheduled)
            h._scheduled = False
            out.append(h)
        return out

    def advance_to_us(self, us: int, order=None):
        """Move the clock to `us` and queue the timers that became due (heap order, or
        permuted by `order`, a permutation of range(len(due)))."""
        assert us >= self.us, (us, self.us)
        self.us = us
        due = self.due_timers()
        if order is not None and len(due) > 1:
            due = [due[i] for i in order]
        for h in due:
            self._ready.append(h)
        return len(due)

    def tick(self) -> bool:
        """Advance to the next pending timer. Returns False when there is none."""
        nxt = self.next_timer_us()
        if nxt is None:
            return False
        self.advance_to_us(nxt)
        return True

    def settle(self, max_ticks: int = 10_000):
        """drain / tick until no ready callbacks and no timers remain."""
        n = 0
        while True:
            self.drain()
            if not self.tick():
                break
            n += 1
            if n > max_ticks:
                raise HorizonExceeded(f'tick cap {max_ticks} hit')

    # -- inspection -------------------------------------------------------------------
    def task_failures(self, ignore=()):
        """Tasks that ended with an exception nobody may have seen: (name, exc type, where)."""
        out = []
        for t in self.tasks:
            if t in ignore or not t.done() or t.cancelled():
                continue
            e = t.exception()
            if e is not None:
                out.append({'task': coro_name(t), 'exception': type(e).__name__, 'where': tb_where(e)})
        return out

    def pending_tasks(self):
        return [t for t in self.tasks if not t.done()]


def coro_name(task) -> str:
    c = task.get_coro()
    return getattr(c, '__qualname__', repr(c))


def tb_where(exc) -> str:
    """innermost frame inside the ndn package (file:function), else innermost frame."""
    tb = exc.__traceback__
    best = None
    last = None
    while tb is not None:
        code = tb.tb_frame.f_code
        fn = code.co_filename
        item = f"{fn.split('/')[-1]}:{code.co_name}"
        last = item
        if '/ndn/' in fn:
            best = item
        tb = tb.tb_next
    return best or last or '?'


class FakeTime:
    """Stands in for the `time` module inside library modules (utils, svs.sync)."""

    def __init__(self, loop: VLoop):
        self._loop = loop

    def time(self):
        # optional drift: every reading of the wall clock costs `drift_us` microseconds (time passes while code runs)
        lp = self._loop
        d = getattr(lp, 'drift_us', 0)
        if d:
            lp.read_offset_us = getattr(lp, 'read_offset_us', 0) + d
        return EPOCH + lp.time() + 0.0005 + getattr(lp, 'read_offset_us', 0) / 1e6

    def time_ns(self):
        return int(self.time() * 1e9)

    def monotonic(self):
        return self._loop.time()
