#!/bin/bash
# Offline setup: nothing to compile. Verifies the interpreter, the repo import path and the framework self-test.
set -e
cd "$(dirname "$0")"
export PYTHONPATH="${VERIF_REPO:-/repo}/src:$(pwd)" PYTHONHASHSEED=0 PYTHONDONTWRITEBYTECODE=1
/venv/bin/python -B -c "import ndn, ndn.appv2, ndn.app, lark, pygtrie, Cryptodome; import mc.core, mc.vloop, mc.explore"
/venv/bin/python -B -m mc.selftest
mkdir -p evidence
