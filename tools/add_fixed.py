#!/usr/bin/env python3
"""usage: tools/add_fixed.py PROP 'substring of fix commit subject' 'signature glob' 'what failed'  -- append a fixed entry"""
import json, subprocess, sys
prop, sub, sig, what = sys.argv[1:5]
log = subprocess.check_output(['git', '-C', '/repo', 'log', '--format=%h %s']).decode().splitlines()
c = [l.split()[0] for l in log if sub in l]
assert len(c) == 1, (sub, c)
p = '/verif/known_findings.json'
kf = json.load(open(p))
kf['findings'].append({'property': prop, 'status': 'fixed', 'commit': c[0], 'signature': sig,
                       'what': f'fixed: property={prop} {c[0]} {what}'})
json.dump(kf, open(p, 'w'), indent=1)
print('added', prop, c[0])
