#!/bin/bash
# usage: tools/benign.sh <patch> <PROP>...  -- property-preserving refactor: tests must pass and every listed check must stay silent
patch_file="$(readlink -f "$1")"; shift
scratch="$(mktemp -d /tmp/ben.XXXXXX)"; trap 'rm -rf "$scratch"' EXIT
cp -r /repo/src /repo/tests /repo/pyproject.toml "$scratch"/
(cd "$scratch" && patch -p1 -s --no-backup-if-mismatch < "$patch_file") || { echo "BENIGN $(basename $patch_file) PATCH-FAILED"; exit 3; }
t=$(cd "$scratch" && PYTHONPATH="$scratch/src" /venv/bin/python -B -m pytest -q -p no:cacheprovider tests 2>&1 | tail -1)
res=""
for prop in "$@"; do
  out=$(cd /verif && VERIF_REPO="$scratch" ./check $prop --tier quick --no-evidence 2>&1); rc=$?
  res="$res $prop=rc$rc"
  [ $rc -ne 0 ] && echo "$out" | grep -E "VIOLATION|HARNESS|signature" | head -3
done
echo "BENIGN $(basename $patch_file) tests='$t'$res"
