#!/bin/bash
# usage: cross.sh "SEED:PROP" ...
cd /verif
printf '%s\n' "$@" | xargs -P 4 -I{} bash -c 'x={}; id=${x%%:*}; prop=${x##*:}; VERIF_JOBS=6 tools/mutate.sh seeded/$id/patch.diff $prop quick 0 2>/dev/null | tail -1 | sed "s/^MUTANT patch.diff/CROSS $id/"' | sort
