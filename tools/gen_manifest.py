#!/usr/bin/env python3
"""Regenerates /verif/MANIFEST.json from the table below (kept valid at all times)."""
import json, os, sys
HERE = os.path.dirname(os.path.dirname(os.path.abspath(__file__)))
sys.path.insert(0, HERE)
from tools.manifest_table import CHECKS, HOOK_COMMITS  # noqa

props = [json.loads(l) for l in open(os.path.join(HERE, 'properties.jsonl'))]
checks = []
na = []
for p in props:
    pid = p['id']
    c = CHECKS.get(pid)
    if c is None or c.get('na'):
        na.append({'property_id': pid, 'reason': (c or {}).get('na', 'check not built yet (work in progress; see DESIGN.md)')})
        continue
    checks.append({
        'property_id': pid,
        'quick_cmd': f'./check {pid} --tier quick',
        'thorough_cmd': f'./check {pid} --tier thorough',
        'evidence_file': f'/verif/evidence/{pid}.json',
        'replay_cmd_template': f'./check {pid} --replay {{path}}',
        'engine': c['engine'],
        'level_claimed': {'category': 'model_checking', 'text': c['text'], 'design_ref': c['design_ref']},
        'level_note': c['note'],
        'technique': c['technique'],
    })
m = {
    'version': 1,
    'setup_cmd': './setup.sh',
    'hooks': {
        'guard': 'NDN_VERIF',
        'enable': 'no source hooks are needed: ./check runs /venv/bin/python -B with PYTHONPATH=$VERIF_REPO/src (default /repo/src), so the current working tree is what gets imported; NDN_VERIF=1 is exported for completeness',
        'baseline_off_cmd': 'cd /repo && /venv/bin/python -m pytest -ra -q -p no:cacheprovider --timeout=900 --continue-on-collection-errors',
        'source_commits': HOOK_COMMITS,
        'add_only': True,
    },
    'engines': [
        {'name': 'E-sched', 'path': 'mc/vloop.py, mc/explore.py', 'kind_free_text': 'virtual-time asyncio loop + stateless deviation-bounded schedule explorer over the real front-ends',
         'serves_properties': [p for p, c in CHECKS.items() if not c.get('na') and 'E-sched' in c['engine']]},
        {'name': 'E-hist', 'path': 'mc/bfs.py', 'kind_free_text': 'explicit-state BFS over operation histories replayed on fresh real objects, canonical-state dedup',
         'serves_properties': [p for p, c in CHECKS.items() if not c.get('na') and 'E-hist' in c['engine']]},
        {'name': 'E-input', 'path': 'mc/space.py', 'kind_free_text': 'bounded-exhaustive enumeration of input/program spaces (complete products of code-derived menus), sharded over 16 workers',
         'serves_properties': [p for p, c in CHECKS.items() if not c.get('na') and ('E-input' in c['engine'] or 'E-prog' in c['engine'])]},
    ],
    'checks': checks,
    'not_applicable': na,
    'notes': 'All checks execute the real library code; reference models are small Python oracles in mc/ref/. Genuine defects repaired in /repo are listed as fixed in known_findings.json.',
}
json.dump(m, open(os.path.join(HERE, 'MANIFEST.json'), 'w'), indent=1)
print(f'{len(checks)} checks, {len(na)} not applicable')
