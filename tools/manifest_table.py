HOOK_COMMITS = []
CHECKS = {
 'C03': {
  'engine': 'E-sched',
  'technique': 'stateless model checking of the implementation: exhaustive event orders x deviation-bounded schedules on a virtual asyncio loop, reference-PIT oracle',
  'text': 'Every ordering of every sub-multiset of Data/Nack/tick/cancel/shutdown/late-express events (length bound per tier) over 2-4 concurrently pending Interests on same and nested names, times every placement of <=1 (quick) / <=2 (thorough) pre-emptions of a callback chain by the next event or same-instant timer order, is executed on both real front-ends; each execution is checked against a reference PIT computed from the executed trace, plus no-internal-error, nothing-left-pending, face-output and second-round (non-initial state) clauses.',
  'note': 'Trusted: the virtual loop runs callbacks FIFO like asyncio; time only advances at tick events; same-instant candidates are all accepted (DESIGN 2.5/2). Bounds: script length, deviation bound, scenario alphabets in checks/c03.py.',
  'design_ref': 'DESIGN.md section 3 C03',
 },
}
