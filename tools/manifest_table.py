HOOK_COMMITS = []
CHECKS = {
 'C03': {
  'engine': 'E-sched',
  'technique': 'stateless model checking of the implementation: exhaustive event orders x deviation-bounded schedules on a virtual asyncio loop, reference-PIT oracle',
  'text': 'Every ordering of every sub-multiset of Data/Nack/tick/cancel/shutdown/late-express events (length bound per tier) over 2-4 concurrently pending Interests on same and nested names, times every placement of <=1 (quick) / <=2 (thorough) pre-emptions of a callback chain by the next event or same-instant timer order, is executed on both real front-ends; each execution is checked against a reference PIT computed from the executed trace, plus no-internal-error, nothing-left-pending, face-output and second-round (non-initial state) clauses.',
  'note': 'Trusted: the virtual loop runs callbacks FIFO like asyncio; time only advances at tick events; same-instant candidates are all accepted (DESIGN 2.5/2). Bounds: script length, deviation bound, scenario alphabets in checks/c03.py.',
  'design_ref': 'DESIGN.md section 3 C03',
 },
 'C01': {
  'engine': 'E-input',
  'technique': 'bounded-exhaustive enumeration of encoder inputs on the real code (complete menu products, every payload length in windows / 0..70000), independent strict TLV reader as oracle',
  'text': 'Every case of complete products of code-derived menus (names 0..3 components over 7 kinds in 4-5 representations; all 648 InterestParam and 61 MetaInfo combinations; every Name length and payload length in windows around 253 and 65536 (thorough: every payload length 0..70000 for six combinations); all shipped signers, ECDSA at every DER length the DRBG reaches, and a synthetic signer with every shrink amount) is encoded with the real make_interest/make_data and checked by an independent strict reader: one well-formed element, shortest-form numbers, exact lengths at every nesting level, fields equal to the inputs, params digest equal to SHA-256 of the reference-located range, and parse_* returning the same.',
  'note': 'Trusted: mc/ref/tlv_strict.py and mc/ref/ndn_strict.py (written from the NDN packet format 0.3 spec); bounds: names <= 3 components, payload <= 70000.',
  'design_ref': 'DESIGN.md section 3 C01',
 },
 'C04': {
  'engine': 'E-hist + E-input',
  'technique': 'explicit enumeration of all prefix subsets x all probe names and of all attach/detach histories up to a depth, each executed on the real tries through the real receive path, naive longest-prefix reference',
  'text': 'All subsets of a 15-name prefix tree (quick: all subsets of the 7-name tree plus all subsets of size <=3) attached in rotating representations on appv2, the legacy app and Dispatcher, probed with all 121 Interest names of length <=4 over 3 letters through the real receive path; all attach/detach histories up to depth 4 (thorough 5) over 4 nested/sibling prefixes with the whole lookup table compared to a reference dict after every step; reply timing product (lifetime x instant around the deadline x repetitions) for the reply callback.',
  'note': 'Trusted: naive list-prefix reference. Detaching an unattached prefix is outside the statement (table must be unchanged).',
  'design_ref': 'DESIGN.md section 3 C04',
 },
 'C05': {
  'engine': 'E-sched + E-input',
  'technique': 'stateless model checking of the implementation (verdict x latency x event order x deviation placement on a virtual loop) with the reference PIT; complete product of incoming-Interest kinds x digest variants x validator verdicts',
  'text': 'Consumer side: for every validator verdict (all ValidResult members and plain Python values) x validator latency (0, <, =, > lifetime) x front-end, with a second Interest sharing the node, all orders of Data/ticks and <=2 (quick) / <=3 (thorough) deviations are executed; the outcome must be the payload only if accepted and in time, else a ValidationFailure carrying packet and verdict, or a timeout. Producer side: the complete product Interest kind x digest variant x validator verdict x latency x front-end through the real receive path; the handler is called exactly when the statement allows and only after the validator returned.',
  'note': 'Legacy front-end validates after the wait ended: late-validator clause checked in weak form there (DESIGN C05). Trusted: reference PIT, same-instant rule.',
  'design_ref': 'DESIGN.md section 3 C05',
 },
 'C06': {
  'engine': 'E-sched + fault enumeration',
  'technique': 'exhaustive chunking/EOF enumeration of the real StreamFace.run on a real StreamReader under a deviation-bounded scheduler; exhaustive single-edit fault enumeration of a packet corpus and all short byte strings delivered through the real UdpFace handler into populated applications',
  'text': 'Framing: every chunking (all 2^(n-1) for streams <=14 bytes, all <=2/<=3 cuts at every type/length byte otherwise) and every EOF offset of packet sequences with 1/3/5/9-byte numbers, with <=1/<=2 deviations, against a reference framer. Robustness: every single-byte substitution (12 values quick, all 256 thorough), every truncation, TLV-level edits at two nesting levels of a 17-packet corpus, all byte strings of length <=2 and all strings of length <=4/5 over a 12-symbol alphabet, delivered as datagrams into both front-ends holding pending Interests (exact, prefix, digest, bystander) and handlers; no exception, no failed task, pending Interests end legally, bystanders still work.',
  'note': 'Trusted: reference framer; bystander names more than one edit away from corpus names. Multi-edit corruptions are not enumerated.',
  'design_ref': 'DESIGN.md section 3 C06',
 },
 'C10': {
  'engine': 'E-sched + E-input',
  'technique': 'differential exhaustive enumeration on the real receive path (bare run vs wrapped run for every header subset x packet x table state) plus exhaustive reply-order enumeration for PIT tokens',
  'text': 'For every corpus packet x table state x subset of 8 optional LpPacket headers (quick: subsets of size <=2 and >=7; thorough: all 256) the bare and the wrapped delivery are executed on both front-ends and handler calls, Interest outcomes and output compared; Nack reason codes at every integer-width boundary up to 2^64-1 against three pending Interests on two names; fragmented envelopes must have no effect; for k<=3 Interests with token lengths {none,0,1,8,32,33} every reply order and double replies are executed and every reply wire is checked by the reference LpPacket reader for identical token and unmodified reply bytes.',
  'note': 'Trusted: mc/ref/ndn_strict.read_lp. Unknown header uses an ignorable type; absent NackReason carries no reason claim.',
  'design_ref': 'DESIGN.md section 3 C10',
 },
 'C17': {
  'engine': 'E-sched + E-input',
  'technique': 'stateless model checking of the implementation: concurrent register/unregister calls x forwarder answer menu x all answer/tick scripts x deviation-bounded schedules on a virtual loop; exhaustive field-subset enumeration for response decoding',
  'text': 'N<=3 concurrent register/unregister calls at the same clock reading on both front-ends against a simulated forwarder; per command one answer from a menu (200/400/403/500 with and without body, garbage, wrong type, Nack, silence, validator-rejected), every answer/tick script up to a length bound and <=1 (quick) / <=2 (thorough) deviations; every command Interest is checked by the reference readers (name, ControlParameters, signature format, digest), at most one command outstanding, strictly increasing timestamps, result True iff well-formed status 200, never an exception; routes declared before connecting registered once per connection over two connections; all 65536 field subsets of ControlParameters with boundary values through parse_response.',
  'note': 'Trusted: reference readers; a 200 answer without body carries no result claim; an answer processed at/after the 1 s command lifetime may yield either result.',
  'design_ref': 'DESIGN.md section 3 C17',
 },
 'C09': {
  'engine': 'E-input',
  'technique': 'complete enumeration of component types, byte values, value lengths, typed numbers, bounded names in every input form and all ordered name pairs on the real Name/Component code; oracle from the documented URI format and the canonical-order definition',
  'text': 'Every component type 1..65535; every 1- and 2-byte value under four types; value lengths 0..300, 65535, 65536 (literal, escaped, mixed); naming-convention numbers 0..70000 and around every power of two up to 2^64; all names of 0..3 components over a 10-component menu and 0..8 over {a, empty} presented in nine input forms; all 672400 ordered pairs for is_prefix and <,<=,== against list prefix and canonical (type, length, value) order. URI texts are compared with an independent rendering and every conversion is round-tripped.',
  'note': 'Trusted: URI format as documented by the library (empty component between two slashes). Names longer than 8 components and values longer than 65536 bytes are not enumerated.',
  'design_ref': 'DESIGN.md section 3 C09',
 },
}
