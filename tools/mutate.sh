#!/bin/bash
# usage: tools/mutate.sh <patch-file> <PROP> [tier] [seed...]
# Applies one property-breaking patch to a scratch copy of /repo (outside /repo and /verif), checks that the
# repository's own tests still pass there, runs the property's check against the copy and reports whether it
# was detected.  The scratch copy is removed afterwards.
patch_file="$(readlink -f "$1")"; prop="$2"; tier="${3:-quick}"; shift 3 2>/dev/null
seeds="${*:-0}"
scratch="$(mktemp -d /tmp/mut.XXXXXX)"
trap 'rm -rf "$scratch"' EXIT
cp -r /repo/src /repo/tests /repo/pyproject.toml "$scratch"/ 2>/dev/null
[ -f /repo/setup.cfg ] && cp /repo/setup.cfg "$scratch"/
find "$scratch" -name __pycache__ -prune -exec rm -rf {} + 2>/dev/null
if ! (cd "$scratch" && patch -p1 --no-backup-if-mismatch -s < "$patch_file"); then
  echo "MUTANT $(basename "$patch_file") prop=$prop PATCH-FAILED"; exit 3
fi
tests=$(cd "$scratch" && PYTHONPATH="$scratch/src" PYTHONDONTWRITEBYTECODE=1 /venv/bin/python -B -m pytest -q -p no:cacheprovider --timeout=900 tests 2>&1 | tail -1)
case "$tests" in
  *failed*|*error*) tstat="FAIL($tests)";;
  *passed*) tstat="pass";;
  *) tstat="?($tests)";;
esac
res=""
for s in $seeds; do
  out=$(cd /verif && VERIF_SEED=$s VERIF_REPO="$scratch" ./check "$prop" --tier "$tier" --no-evidence 2>&1); rc=$?
  nv=$(echo "$out" | grep -c '^VIOLATION')
  first=$(echo "$out" | grep -m1 'signature:' | sed 's/ *signature: //')
  if [ $rc -eq 1 ] && [ $nv -gt 0 ]; then res="$res seed$s=DETECTED($nv;$first)"; elif [ $rc -eq 0 ]; then res="$res seed$s=MISSED"; else res="$res seed$s=ERROR(rc=$rc)"; echo "$out" | tail -5 >&2; fi
done
echo "MUTANT $(basename "$patch_file") prop=$prop tier=$tier tests=$tstat$res"
