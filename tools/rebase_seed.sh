#!/bin/bash
# usage: tools/rebase_seed.sh <seeded-dir>  -- refresh a seeded patch against the current /repo HEAD by 3-way merge
# (fix: commits made after the seed was produced may touch neighbouring lines). Keeps the original as patch.orig.diff.
d="$(readlink -f "$1")"; wt=$(mktemp -d /tmp/rb.XXXXXX); rmdir $wt
git -C /repo worktree add -q --detach $wt HEAD
cd $wt
if git apply --check "$d/patch.diff" 2>/dev/null; then echo "$(basename $d): applies cleanly"; else
  if git apply --3way "$d/patch.diff" >/dev/null 2>&1 && ! git diff --name-only --diff-filter=U | grep -q .; then
    [ -f "$d/patch.orig.diff" ] || cp "$d/patch.diff" "$d/patch.orig.diff"
    git diff HEAD -- src > "$d/patch.diff"; echo "$(basename $d): rebased by 3-way merge"
  else echo "$(basename $d): CONFLICT - manual rebase needed"; git diff --name-only --diff-filter=U; fi
fi
cd /; git -C /repo worktree remove --force $wt
