#!/bin/bash
# usage: tools/run_all.sh [tier] [seed]  -- run every registered check once; prints one line per check
tier=${1:-quick}; seed=${2:-0}
cd "$(dirname "$0")/.."
for c in $(python3 -c "import json; print(' '.join(x['property_id'] for x in json.load(open('MANIFEST.json'))['checks']))"); do
  s=$(date +%s.%N); out=$(VERIF_SEED=$seed ./check $c --tier $tier 2>&1); rc=$?; e=$(date +%s.%N)
  printf "%s rc=%d %.1fs %s\n" $c $rc $(echo "$e - $s" | bc) "$(echo "$out" | grep -E "^C[0-9]+ tier" | cut -c1-170)"
  [ $rc -ne 0 ] && echo "$out" | grep -E "VIOLATION|HARNESS|signature" | head -5
done
