#!/bin/bash
# usage: tools/run_benign.sh [jobs]  -- every benign/r*/B*.patch against the checks of its two properties (from its .json) in parallel
jobs="${1:-4}"
cd "$(dirname "$0")/.."
ls benign/r*/*.patch | xargs -P "$jobs" -I{} bash -c 'p={}; props=$(python3 -c "import json,sys; print(\" \".join(json.load(open(sys.argv[1]))[\"properties\"]))" ${p%.patch}.json); VERIF_JOBS=6 tools/benign.sh $p $props 2>&1 | grep -v KNOWN | tail -4 | tr "\n" " "; echo' | sort
