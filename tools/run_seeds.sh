#!/bin/bash
# usage: tools/run_seeds.sh <suffix-regex> [jobs]  -- run the seeds whose directory name matches, in parallel; one line per seed
re="$1"; jobs="${2:-4}"
cd "$(dirname "$0")/.."
ls -d seeded/C*/ | grep -E "$re" | xargs -P "$jobs" -I{} bash -c 'd={}; id=$(basename $d); prop=${id%%-*}; VERIF_JOBS=6 tools/mutate.sh $d/patch.diff $prop quick 0 2>/dev/null | tail -1 | sed "s/^MUTANT patch.diff/SEED $id/"' | sort
