#!/bin/bash
# usage: tools/run_some.sh <tier> <seed> <ID>...  -- run the named checks once each; one line per check (like run_all.sh)
tier=$1; seed=$2; shift 2
cd "$(dirname "$0")/.."
for c in "$@"; do
  s=$(date +%s.%N); out=$(VERIF_SEED=$seed ./check $c --tier $tier 2>&1); rc=$?; e=$(date +%s.%N)
  printf "%s rc=%d %.1fs %s\n" $c $rc $(echo "$e - $s" | bc) "$(echo "$out" | grep -E "^C[0-9]+ tier" | cut -c1-170)"
  [ $rc -ne 0 ] && echo "$out" | grep -E "VIOLATION|HARNESS|signature" | head -5
done
