#!/bin/bash
# usage: tools/seed_matrix.sh [tier] [out-file]  -- run every seeded change and every own mutant against the check of its property
tier=${1:-quick}; out=${2:-/dev/stdout}
cd "$(dirname "$0")/.."
{
for d in seeded/C*/; do
  id=$(basename $d); prop=${id%%-*}
  tools/mutate.sh $d/patch.diff $prop $tier 0 2>/dev/null | sed "s/^MUTANT patch.diff/SEED $id/"
done
for m in mutants/*.patch; do
  prop=$(basename $m | cut -d- -f1)
  tools/mutate.sh $m $prop $tier 0 2>/dev/null
done
} > $out
