#!/bin/bash
# usage: tools/seed_matrix.sh [tier] [out-file]  -- run every seeded change and every own mutant against the check of its property
tier=${1:-quick}; out=${2:-/dev/stdout}
cd "$(dirname "$0")/.."
{
tools/run_seeds.sh '.' 4
ls mutants/*.patch | xargs -P 4 -I{} bash -c 'm={}; prop=$(basename $m | cut -d- -f1); VERIF_JOBS=6 tools/mutate.sh $m $prop quick 0 2>/dev/null | tail -1' | sort
} > $out
