#!/bin/bash
# usage: tools/verify_seed.sh <PROP> <n> [target-index]   -- confirm a sub-agent's seeded change in its scratch worktree /tmp/seed/<PROP>
# (tests still pass with the patch, demo fails with it and passes without), then keep it under /verif/seeded/<PROP>-<n>/
prop=$1; n=$2; t=${3:-$2}; wt=/tmp/seed/$prop; out=$wt/out
[ -f $out/patch$n.diff ] || { echo "no patch $out/patch$n.diff"; exit 2; }
cd $wt && git checkout -q -- src && git apply --check $out/patch$n.diff || { echo "SEED $prop-$n patch does not apply"; exit 2; }
git apply $out/patch$n.diff
tests=$(PYTHONPATH=$wt/src PYTHONDONTWRITEBYTECODE=1 /venv/bin/python -B -m pytest -q -p no:cacheprovider --timeout=900 tests 2>&1 | tail -1)
PYTHONPATH=$wt/src timeout 300 /venv/bin/python -B $out/demo$n.py >/dev/null 2>&1; with=$?
git checkout -q -- src
PYTHONPATH=$wt/src timeout 300 /venv/bin/python -B $out/demo$n.py >/dev/null 2>&1; without=$?
echo "SEED $prop-$n tests='$tests' demo_with_patch_rc=$with demo_without_rc=$without"
case "$tests" in *failed*|*error*) echo "  REJECT: tests fail"; exit 1;; esac
if [ $with -ne 0 ] && [ $without -eq 0 ]; then
  d=/verif/seeded/$prop-$t; mkdir -p $d
  cp $out/patch$n.diff $d/patch.diff; cp $out/demo$n.py $d/demo.py
  python3 - "$out/meta$n.json" "$d/meta.json" "$tests" <<'PY'
import json, sys
try:
    m = json.load(open(sys.argv[1]))
except Exception:
    m = {}
m['confirmed'] = {'tests_with_patch': sys.argv[3], 'demo_with_patch': 'fails', 'demo_without_patch': 'passes',
                  'how': 'tools/verify_seed.sh in the sub-agent\'s scratch worktree (git apply; pytest; demo; git checkout; demo)'}
json.dump(m, open(sys.argv[2], 'w'), indent=1)
PY
  echo "  KEPT in $d"
else echo "  REJECT: demo does not discriminate"; exit 1; fi
