#!/bin/bash
# usage: ./tools_show.sh C03 <replay.json>  -- print the executed trace of a recorded case
export PYTHONPATH="${VERIF_REPO:-/repo}/src:/verif" PYTHONHASHSEED=0
exec /venv/bin/python -B -m checks.$(echo $1 | tr A-Z a-z) "$2"
